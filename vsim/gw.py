"""Gateway-level simulated world: real Gateway on a SimTransport on a SimLoop."""

from __future__ import annotations

import asyncio
import gc

from .core import EventLog, Tapes, use_repo, task_exc
from .loop import SimLoop, new_loop
from .model import Obs

use_repo()

import aiomysensors  # noqa: E402
from aiomysensors import exceptions as amx  # noqa: E402
from aiomysensors.gateway import Config, Gateway  # noqa: E402
from aiomysensors.model.message import Message  # noqa: E402
from aiomysensors.transport import Transport  # noqa: E402
import aiomysensors.model.protocol.protocol_14 as _p14  # noqa: E402
import time as _real_time  # noqa: E402


class TimeShim:
    """Replaces the `time` module attribute of protocol_14 (the repo's clock seam):
    the wall clock every handler reads is the simulated one."""

    def __init__(self, now_fn):
        self._now = now_fn

    def localtime(self, secs=None):
        return _real_time.localtime(self._now() if secs is None else secs)

    def gmtime(self, secs=None):
        return _real_time.gmtime(self._now() if secs is None else secs)

    def time(self):
        return float(self._now())

    def __getattr__(self, name):
        return getattr(_real_time, name)


def write_category(line: str) -> str:
    parts = line.split(";")
    if len(parts) >= 6:
        if parts[2] == "1":
            return "set"
        if parts[2] == "3" and parts[4] == "19":
            return "pres"
        if parts[2] == "3" and parts[4] == "4":
            return "idresp"
    return "other"


class SimTransport(Transport):
    """Injected transport. 'Written' means write() returned normally."""

    def __init__(self, world: "GwWorld") -> None:
        self.world = world
        self.inbox: asyncio.Queue = asyncio.Queue()
        self.connected = False
        self.connect_calls = 0
        self.disconnect_calls = 0

    async def connect(self) -> None:
        w = self.world
        self.connect_calls += 1
        w.log("transport", "connect")
        lat = w.tapes.next("connect.lat", 0)
        if lat:
            await asyncio.sleep(lat)
        if w.tapes.next("connect.fail", 0):
            w.faults["connect_fail"] += 1
            raise amx.TransportError("sim: connect failed")
        self.connected = True

    async def disconnect(self) -> None:
        w = self.world
        self.disconnect_calls += 1
        w.log("transport", "disconnect")
        lat = w.tapes.next("disconnect.lat", 0)
        if lat:
            await asyncio.sleep(lat)
        self.connected = False
        if w.tapes.next("disconnect.fail", 0):
            w.faults["disconnect_fail"] += 1
            raise amx.TransportFailedError("sim: disconnect failed")

    async def read(self) -> str:
        item = await self.inbox.get()
        kind, val = item
        if kind == "err":
            self.world.faults["read_fail"] += 1
            self.world.log("transport", "read-fail", val)
            raise getattr(amx, val)("sim: read failed") if val != "TransportReadError" \
                else amx.TransportReadError(OSError("sim"), b"")
        self.world.log("transport", "read", val)
        return val

    async def write(self, decoded_message: str) -> None:
        w = self.world
        cat = write_category(decoded_message)
        idx = len(w.writes)
        rec = {"line": decoded_message, "ok": None, "cat": cat, "seq_start": None, "seq_end": None}
        w.writes.append(rec)
        rec["seq_start"] = w.log("transport", "write-start", idx, decoded_message)
        if w.on_write_enter is not None:
            w.on_write_enter(rec)
        fail = w.tapes.next("w.fail." + cat, 0)
        lat = w.tapes.next("w.lat", 0)
        if fail == 1:
            rec["ok"] = False
            w.faults["write_fail_early"] += 1
            rec["seq_end"] = w.log("transport", "write-fail", idx)
            raise amx.TransportFailedError("sim: write failed")
        if lat:
            w.faults["write_suspended"] += 1
            await asyncio.sleep(lat)
        if fail == 2:
            rec["ok"] = False
            w.faults["write_fail_late"] += 1
            rec["seq_end"] = w.log("transport", "write-fail", idx)
            raise amx.TransportFailedError("sim: write failed")
        rec["ok"] = True
        rec["seq_end"] = w.log("transport", "write-end", idx)


def snapshot_nodes(gateway) -> dict:
    out = {}
    for key, n in gateway.nodes.items():
        out[key] = {
            "type": n.node_type, "version": n.protocol_version,
            "sketch_name": n.sketch_name, "sketch_version": n.sketch_version,
            "battery": n.battery_level, "heartbeat": n.heartbeat, "sleeping": n.sleeping,
            "children": {ck: {"type": c.child_type, "desc": c.description, "values": dict(c.values)}
                         for ck, c in n.children.items()},
        }
        if n.node_id != key:
            out[key]["node_id_mismatch"] = n.node_id
    return out


def exc_info(exc: BaseException):
    cls = type(exc)
    bases = tuple(b.__name__ for b in cls.__mro__)
    attrs = {}
    for k in ("node_id", "child_id"):
        if hasattr(exc, k):
            attrs[k] = getattr(exc, k)
    return cls.__name__, bases, attrs


class GwWorld:
    """One gateway, one simulated device behind an injected transport."""

    def __init__(self, cfg: dict, tapes: dict | None = None, step_cap: int = 200_000):
        self.cfg = cfg
        self.loop: SimLoop = new_loop(step_cap)
        self.tapes = Tapes(tapes)
        self.elog = EventLog()
        from collections import Counter
        self.faults = Counter()
        self.writes: list[dict] = []
        self.on_write_enter = None
        self.link = cfg.get("link", "sim")
        self.peer = None
        if self.link == "tcp":
            # full stack: the real TCPTransport and asyncio streams on the simulated byte link
            from aiomysensors.transport.tcp import TCPTransport

            from .streams import SimPeer, install_network

            self.peer = SimPeer(self)
            install_network(self, self.peer)
            self.transport = TCPTransport("gw.sim", 5003)
            t = self.loop.create_task(self.transport.connect())
            self.loop.run_until_idle(10)
            if not t.done() or task_exc(t) is not None:
                raise RuntimeError("simulated TCP connect failed in a fault-free setup")
            self._rx_mark = 0
            peer = self.peer
            orig_on_write = peer.on_write

            def on_write(data, _orig=orig_on_write):
                stall = self.tapes.next("link.stall", 0)
                if stall:
                    # the peer stops reading for a while: the bytes are accepted, drain() has to wait
                    self.faults["link_stall"] += 1
                    peer.slow_consumer = True
                    peer.transport.set_write_buffer_limits(high=1, low=0)

                    def resume():
                        peer.slow_consumer = False
                        peer.consume()

                    self.loop.call_later(stall, resume)
                r = _orig(data)
                # every write() of the transport carries exactly one encoded line
                for raw in data.split(b"\n")[:-1]:
                    rec = {"line": raw.decode("utf-8", "replace") + "\n", "ok": True, "cat": "?",
                           "seq_start": None, "seq_end": None}
                    rec["cat"] = write_category(rec["line"])
                    self.writes.append(rec)
                    rec["seq_start"] = rec["seq_end"] = self.log("transport", "write", len(self.writes) - 1, rec["line"])
                    if self.on_write_enter is not None:
                        self.on_write_enter(rec)
                return r

            peer.on_write = on_write
        else:
            self.transport = SimTransport(self)
        self.disk = None
        self._fs = None
        if cfg.get("persist"):
            # persistence configured: simulated disk behind aiofiles, context entered for the whole run
            from .fs import SimDisk, patched_fs

            self.disk = SimDisk(self)
            self._fs = patched_fs(self.disk)
            self._fs.__enter__()
            self.loop.exec_latency = lambda: self.tapes.next("exec.lat", 0)
            if cfg.get("image") is not None:
                self.disk.files["/sim/persistence.json"] = bytearray(cfg["image"].encode())
            self.gateway = Gateway(self.transport, Config(metric=cfg.get("metric", True),
                                                          persistence_file="/sim/persistence.json"))
            t = self.loop.create_task(self.gateway.__aenter__())
            self.loop.run_until_idle(50)
            if not t.done() or task_exc(t) is not None:
                raise RuntimeError(f"could not enter the gateway context: {task_exc(t) if t.done() else 'hang'}")
        elif cfg.get("default_config") and cfg.get("metric", True):
            self.gateway = Gateway(self.transport)  # built without a config: metric by default
        else:
            self.gateway = Gateway(self.transport, Config(metric=cfg.get("metric", True)))
        if cfg.get("pin"):
            self.gateway.protocol_version = cfg["pin"]
        self._gen = None
        self._wmark = 0
        self.clock = {"base": int(cfg.get("epoch", 1_700_000_000)), "jump": 0}
        self._old_time = _p14.time
        _p14.time = TimeShim(self.now)

    def now(self) -> int:
        """Simulated wall clock (epoch seconds)."""
        return self.clock["base"] + self.clock["jump"] + int(self.loop.time())

    def log(self, actor, kind, *args) -> int:
        return self.elog.add(self.loop.time(), actor, kind, *args)

    # -- observation -------------------------------------------------------
    def take_writes(self):
        new = self.writes[self._wmark:]
        self._wmark = len(self.writes)
        return [(r["line"], bool(r["ok"])) for r in new]

    def observe(self, task: asyncio.Task, extra_attrs=None) -> Obs:
        gw = self.gateway
        nodes = snapshot_nodes(gw)
        version = gw.protocol_version
        proto = getattr(gw.protocol, "VERSION", None)
        writes = self.take_writes()
        if not task.done():
            obs = Obs("hang", writes=writes, nodes=nodes, version=version, proto=proto)
        elif task.cancelled():
            obs = Obs("err", cls="CancelledError", bases=("CancelledError", "BaseException"),
                      writes=writes, nodes=nodes, version=version, proto=proto)
        elif task_exc(task) is not None:
            exc = task_exc(task)
            if isinstance(exc, StopAsyncIteration):
                obs = Obs("stop", writes=writes, nodes=nodes, version=version, proto=proto)
            else:
                cls, bases, attrs = exc_info(exc)
                obs = Obs("err", cls=cls, bases=bases, attrs=attrs, writes=writes, nodes=nodes,
                          version=version, proto=proto)
        else:
            res = task.result()
            fields = None
            if isinstance(res, Message):
                fields = (res.node_id, res.child_id, res.command, res.ack, res.message_type, res.payload)
                if self.cfg.get("scribble", True):
                    # the application owns the yielded object: mutate it, later lines must not be affected
                    res.node_id, res.child_id, res.command, res.message_type = 254, 254, 1, 9999
                    res.ack, res.payload = 1, "SCRIBBLED-BY-APPLICATION"
            obs = Obs("ok", fields=fields, writes=writes, nodes=nodes, version=version, proto=proto)
        if extra_attrs:
            obs.attrs.update(extra_attrs)
        self.log("harness", "outcome", obs.kind, obs.cls, obs.fields, tuple(writes))
        return obs

    # -- operations --------------------------------------------------------
    def listen_step(self, line: str | None, horizon: float = 1000.0, read_err: str | None = None) -> Obs:
        """Deliver one line (or a read error) and ask for the next message."""
        if self.disk is not None:
            horizon = min(horizon, 50.0)  # do not run into the background saver's 900 s timer at every step
        if self.link == "tcp":
            if line is not None:
                data = line.encode("utf-8")
                if not data.endswith(b"\n"):
                    data += b"\n"
                cut = self.tapes.next("link.chunk", 0)
                if cut and 0 < cut < len(data):
                    self.peer.send(data[:cut])
                    self.peer.send(data[cut:])
                else:
                    self.peer.send(data)
        elif read_err:
            self.transport.inbox.put_nowait(("err", read_err))
        elif line is not None:
            self.transport.inbox.put_nowait(("line", line))
        if self._gen is None:
            self._gen = self.gateway.listen()
        extra = {}
        if line is not None:
            def on_enter(rec, gw=self.gateway):
                if rec["cat"] == "idresp":
                    try:
                        extra["registered_at_write"] = int(rec["line"].rstrip("\n").split(";")[5]) in gw.nodes
                    except ValueError:
                        pass
            self.on_write_enter = on_enter
        task = self.loop.create_task(self._gen.__anext__())
        self.loop.run_until_idle(horizon)
        self.on_write_enter = None
        obs = self.observe(task, extra)
        if obs.kind in ("err", "stop"):
            self._gen = None  # an async generator is finished after raising
        elif obs.kind == "hang":
            task.cancel()
            self.loop.run_until_idle(0)
            self._gen = None
        return obs

    def relisten(self) -> None:
        if self._gen is not None:
            t = self.loop.create_task(self._gen.aclose())
            self.loop.run_until_idle(0)
            self._gen = None

    NO_RAW = object()

    def send_step(self, fields, buffer: bool = True, horizon: float = 1000.0, raw=NO_RAW) -> Obs:
        if self.disk is not None:
            horizon = min(horizon, 50.0)
        msg = raw if raw is not GwWorld.NO_RAW else Message(*fields)
        self.log("app", "send", tuple(fields) if fields else repr(raw), buffer)
        task = self.loop.create_task(self.gateway.send(msg, message_buffer=buffer))
        self.loop.run_until_idle(horizon)
        obs = self.observe(task)
        if obs.kind == "hang":
            task.cancel()
            self.loop.run_until_idle(0)
        return obs

    def reenter(self) -> str | None:
        """Leave and re-enter the gateway context on the SAME Gateway object (a caller's reconnect loop).
        Returns the name of an exception class if either step raised."""
        self.relisten()
        self.log("app", "reenter")

        async def cycle():
            try:
                await self.gateway.__aexit__(None, None, None)
            finally:
                if self.disk is not None:
                    self.disk.fault_on.clear()  # the disk is healthy again for the next session
                    self.disk.faults.clear()
                await self.gateway.__aenter__()

        t = self.loop.create_task(cycle())
        self.loop.run_until_idle(100 if self.disk is None else 50)
        self._wmark = len(self.writes)
        if not t.done():
            t.cancel()
            self.loop.run_until_idle(0)
            return "hang"
        if task_exc(t) is not None:
            return type(task_exc(t)).__name__
        return None

    def restart(self, read_fault: bool = False) -> list[str]:
        """Process restart in persistence mode: leave the context (healthy disk), build a NEW Gateway object on the
        same file, optionally let the first entry fail with a read error on the device, then enter for good.
        Returns the exception class names seen at the (failed) entries."""
        assert self.disk is not None
        self.relisten()
        self.disk.fault_on.clear()
        self.disk.faults.clear()
        seen = []

        def run(coro):
            t = self.loop.create_task(coro)
            self.loop.run_until_idle(50)
            if not t.done():
                t.cancel()
                self.loop.run_until_idle(0)
                return "hang"
            return type(task_exc(t)).__name__ if task_exc(t) is not None else None

        seen.append(run(self.gateway.__aexit__(None, None, None)))
        self.log("app", "process-restart", read_fault)
        self.gateway = Gateway(self.transport, Config(metric=self.cfg.get("metric", True),
                                                      persistence_file="/sim/persistence.json"))
        if read_fault:
            self.disk.fault_on["read"] = ["EIO"]
            self.faults["load_read_fault"] += 1
            seen.append(run(self.gateway.__aenter__()))
            self.disk.fault_on.clear()
            # the application retries with a fresh object, as after any failed start
            self.gateway = Gateway(self.transport, Config(metric=self.cfg.get("metric", True),
                                                          persistence_file="/sim/persistence.json"))
        seen.append(run(self.gateway.__aenter__()))
        if self.cfg.get("pin"):
            self.gateway.protocol_version = self.cfg["pin"]
        self._wmark = len(self.writes)
        return seen

    def other_gateway_goes_imperial(self) -> None:
        """Another Gateway object in the same process (built without a config, like this one) switches units."""
        other = Gateway(SimTransport(self))
        other.config.metric = False
        self.log("app", "other-gateway-imperial")

    def close(self) -> None:
        _p14.time = self._old_time
        try:
            self.relisten()
        except Exception:  # noqa: BLE001
            pass
        try:
            self.loop.shutdown()
        finally:
            if self._fs is not None:
                self._fs.__exit__(None, None, None)


class gc_paused:
    def __enter__(self):
        self.was = gc.isenabled()
        gc.disable()

    def __exit__(self, *a):
        if self.was:
            gc.enable()

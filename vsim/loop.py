"""SimLoop: a deterministic, virtual-time asyncio event loop.

* ``time()`` is a virtual clock that only moves when nothing is runnable and
  a timer is due later (discrete-event time).
* The ready queue is run in FIFO order exactly like the real loop; all
  schedule nondeterminism lives in the completion times of external events,
  which come from explicit scenario tapes (never from a PRNG or a real clock).
* ``run_in_executor`` does not use threads: the job becomes a timer event on
  the loop thread whose latency comes from a tape.
* ``create_connection`` is delegated to a hook (vsim.streams) so that the real
  ``asyncio.open_connection`` / StreamReader / StreamWriter run unmodified.
* ``run_until_idle(horizon)`` runs until nothing is ready and no timer is due
  within ``horizon`` virtual seconds: quiescence is an observable state, not a
  timeout.
"""

from __future__ import annotations

import asyncio
import heapq
from asyncio import events


class StepCapExceeded(RuntimeError):
    """Harness error: the run did not become idle within the step cap."""


class SimCrash(BaseException):
    """Raised inside a simulated I/O operation when the process 'dies'."""


class SimLoop(asyncio.BaseEventLoop):
    def __init__(self, step_cap: int = 200_000) -> None:
        super().__init__()
        self._vt = 0.0
        self._limit = 0.0
        self.steps = 0
        self.step_cap = step_cap
        self.exec_latency = lambda: 0.0  # tape hook
        self.exec_cancel_skips = lambda: False  # tape hook
        self.exec_jobs = 0
        self._exec_last = 0.0
        self._exec_pending: list[tuple] = []
        self.on_exec_submit = None  # hook(func): called synchronously when a job is handed to the executor
        self.connection_factory = None  # hook: async (protocol_factory, host, port) -> (transport, protocol)
        self.crashed = False
        self.unhandled: list[dict] = []
        self.set_exception_handler(self._on_unhandled)

    # -- clock -----------------------------------------------------------
    def time(self) -> float:
        return self._vt

    # -- required plumbing -------------------------------------------------
    def _process_events(self, event_list) -> None:  # pragma: no cover
        pass

    def _write_to_self(self) -> None:
        pass

    def _on_unhandled(self, loop, context) -> None:
        exc = context.get("exception")
        self.unhandled.append(
            {"message": context.get("message"), "exc": type(exc).__name__ if exc else None}
        )

    # -- the scheduler -----------------------------------------------------
    def _run_once(self) -> None:
        sched = self._scheduled
        while sched and sched[0]._cancelled:
            h = heapq.heappop(sched)
            h._scheduled = False
        if not self._ready:
            if sched and sched[0]._when <= self._limit:
                if sched[0]._when > self._vt:
                    self._vt = sched[0]._when
            else:
                self._stopping = True
                return
        while sched and sched[0]._when <= self._vt:
            h = heapq.heappop(sched)
            h._scheduled = False
            if not h._cancelled:
                self._ready.append(h)
        ntodo = len(self._ready)
        for _ in range(ntodo):
            h = self._ready.popleft()
            if h._cancelled:
                continue
            self.steps += 1
            if self.steps > self.step_cap:
                raise StepCapExceeded(f"more than {self.step_cap} callbacks")
            h._run()
        h = None

    def _timer_handle_cancelled(self, handle) -> None:
        pass

    def run_until_idle(self, horizon: float = 0.0) -> None:
        """Run until nothing is ready and no timer is due within horizon."""
        self._limit = self._vt + horizon
        self.run_forever()

    def advance(self, dt: float) -> None:
        """Run everything due within dt, then move the clock to exactly vt+dt."""
        target = self._vt + dt
        self._limit = target
        self.run_forever()
        if self._vt < target:
            self._vt = target

    def next_timer(self) -> float | None:
        sched = self._scheduled
        while sched and sched[0]._cancelled:
            h = heapq.heappop(sched)
            h._scheduled = False
        return sched[0]._when if sched else None

    # -- executor seam -----------------------------------------------------
    def run_in_executor(self, executor, func, *args):
        self._check_closed()
        fut = self.create_future()
        latency = float(self.exec_latency())
        skip_if_cancelled = bool(self.exec_cancel_skips())
        self.exec_jobs += 1
        if self.on_exec_submit is not None:
            func = self.on_exec_submit(func) or func

        def job() -> None:
            if self.crashed:
                return
            if fut.cancelled() and skip_if_cancelled:
                return
            try:
                result = func(*args)
            except SimCrash:
                self.crashed = True
                self.stop()
                return
            except BaseException as exc:  # noqa: BLE001
                if not fut.done():
                    fut.set_exception(exc)
            else:
                if not fut.done():
                    fut.set_result(result)

        # A job never lands before an earlier job of the SAME task, nor before an earlier job that has been
        # ABANDONED (its awaiter was cancelled or its task is gone): such a job is one short system call that is
        # already running in its pool thread, and it is assumed to land in arrival order (DESIGN section 8/9.1).
        # Jobs that two LIVE tasks are awaiting at the same time may complete in either order - that is the
        # thread pool's real freedom, and the latency tape decides it.
        try:
            me = asyncio.current_task(self)
        except RuntimeError:
            me = None
        floor = self._vt + latency
        keep = []
        for e_when, e_fut, e_task in self._exec_pending:
            if e_when < self._vt:
                continue
            keep.append((e_when, e_fut, e_task))
            if e_task is None or me is None or e_task is me or e_fut.cancelled() or e_task.done():
                floor = max(floor, e_when)
        when = floor
        keep.append((when, fut, me))
        self._exec_pending = keep
        self._exec_last = max(self._exec_last, when)
        self.call_at(when, job)
        return fut

    # -- network seam ------------------------------------------------------
    async def create_connection(self, protocol_factory, host=None, port=None, **kwargs):
        if self.connection_factory is None:
            raise OSError("SimLoop: no simulated network configured")
        return await self.connection_factory(protocol_factory, host, port)

    # -- helpers -----------------------------------------------------------
    def pending_tasks(self) -> list[asyncio.Task]:
        return [t for t in asyncio.all_tasks(self) if not t.done()]

    def shutdown(self) -> None:
        """Cancel whatever is left and close; never raises for leftovers."""
        try:
            for _ in range(5):
                tasks = self.pending_tasks()
                if not tasks:
                    break
                for t in tasks:
                    t.cancel()
                self.step_cap = self.steps + 100_000
                self.run_until_idle(0)
            for t in asyncio.all_tasks(self):
                if t.done() and not t.cancelled():
                    t.exception()
        finally:
            self._ready.clear()
            self._scheduled.clear()
            events._set_running_loop(None)
            if not self.is_closed():
                self.close()


def new_loop(step_cap: int = 200_000) -> SimLoop:
    loop = SimLoop(step_cap)
    asyncio.set_event_loop(loop)
    return loop

"""Simulated byte link for the real TCP / serial StreamTransport.

``SimLoop.create_connection`` is routed here, so the real
``asyncio.open_connection``, ``StreamReaderProtocol``, ``StreamReader.readuntil``
and ``StreamWriter.write/drain/close/wait_closed`` run unmodified on top of a
``SimStreamTransport`` bound to a ``SimPeer``.  For serial, the module
attribute ``aiomysensors.transport.serial.open_serial_connection`` is replaced
by a coroutine that builds the same stream pair (pyserial itself is a stub).

All timing / fault decisions come from the world's tapes or from explicit
peer events scheduled by the scenario executor.
"""

from __future__ import annotations

import asyncio
import errno

from .loop import SimLoop

CONNECT_ERRORS = {
    "refused": lambda: ConnectionRefusedError(errno.ECONNREFUSED, "sim: connection refused"),
    "timeout": lambda: TimeoutError(errno.ETIMEDOUT, "sim: connect timed out"),
    "unreachable": lambda: OSError(errno.ENETUNREACH, "sim: network unreachable"),
    "gaierror": lambda: __import__("socket").gaierror(-2, "sim: name or service not known"),
    "serial": lambda: __import__("serial").SerialException("sim: could not open port"),
}


class SimStreamTransport(asyncio.Transport):
    """The transport half the real StreamReaderProtocol talks to."""

    def __init__(self, loop: SimLoop, protocol, peer: "SimPeer") -> None:
        super().__init__()
        self._loop = loop
        self._protocol = protocol
        self.peer = peer
        self._closing = False
        self._conn_lost = False
        self._paused_reading = False
        self._buffered = 0  # bytes written but not yet consumed by the peer
        self._high = 64 * 1024
        self._low = 16 * 1024
        self._write_paused = False
        self._extra = {"peername": ("sim", 0)}

    # -- asyncio.Transport API -------------------------------------------
    def get_extra_info(self, name, default=None):
        return self._extra.get(name, default)

    def is_closing(self) -> bool:
        return self._closing

    def set_write_buffer_limits(self, high=None, low=None):
        if high is not None:
            self._high = high
        if low is not None:
            self._low = low

    def get_write_buffer_size(self) -> int:
        return self._buffered

    def get_write_buffer_limits(self):
        return (self._low, self._high)

    def pause_reading(self):
        self._paused_reading = True

    def resume_reading(self):
        self._paused_reading = False
        self.peer._flush_pending()

    def is_reading(self):
        return not self._paused_reading and not self._closing

    def can_write_eof(self):
        return True

    def write_eof(self):
        self.peer.log("write-eof")

    def write(self, data) -> None:
        data = bytes(data)
        if self._conn_lost or self._closing:
            self.peer.log("write-after-close", len(data))
            return
        err = self.peer.on_write(data)
        if err is not None:
            # a failing send(): the selector transport reports it via connection_lost
            self._fatal(err)
            return
        if self._buffered > self._high and not self._write_paused:
            self._write_paused = True
            self._protocol.pause_writing()

    def consumed(self, nbytes: int) -> None:
        """The peer consumed nbytes of back-pressured data."""
        self._buffered = max(0, self._buffered - nbytes)
        if self._write_paused and self._buffered <= self._low:
            self._write_paused = False
            if not self._conn_lost:
                self._protocol.resume_writing()

    def close(self) -> None:
        self.close_calls = getattr(self, "close_calls", 0) + 1
        if self._closing:
            return
        self._closing = True
        self.peer.log("close")
        if self.peer.close_raises is not None:
            # e.g. a hot-unplugged serial adapter: the OS error surfaces from close() itself
            err, self.peer.close_raises = self.peer.close_raises, None
            self.peer.world.faults["stream_close_raises"] += 1
            self._loop.call_soon(self._call_connection_lost, None)
            raise err
        err = self.peer.on_close()
        self._loop.call_soon(self._call_connection_lost, err)

    def abort(self) -> None:
        self._fatal(None)

    # -- internals ---------------------------------------------------------
    def _fatal(self, exc) -> None:
        if self._conn_lost:
            return
        self._closing = True
        self._loop.call_soon(self._call_connection_lost, exc)

    def _call_connection_lost(self, exc) -> None:
        if self._conn_lost:
            return
        self._conn_lost = True
        self.peer.connected = False
        try:
            self._protocol.connection_lost(exc)
        finally:
            self._protocol = None

    # -- events from the peer ----------------------------------------------
    def deliver(self, data: bytes) -> None:
        if self._conn_lost or self._closing:
            return
        self._protocol.data_received(data)

    def deliver_eof(self) -> None:
        if self._conn_lost or self._closing:
            return
        keep_open = self._protocol.eof_received()
        if not keep_open:
            self.close()

    def reset(self, exc=None) -> None:
        self._fatal(exc or ConnectionResetError(errno.ECONNRESET, "sim: connection reset by peer"))


class SimPeer:
    """The simulated MySensors hardware gateway on the other end of the byte link."""

    def __init__(self, world, name: str = "peer") -> None:
        self.world = world
        self.name = name
        self.transport: SimStreamTransport | None = None
        self.connected = False
        self.received = bytearray()  # bytes the controller put on the stream, in order
        self.write_events: list[tuple[int, int]] = []
        self._pending: list[bytes] = []
        self.slow_consumer = False  # True: written bytes stay 'in flight' until consume() is called
        self.write_error = None  # exception instance to fail the next write with
        self.close_error = None
        self.close_raises = None  # exception raised synchronously by transport.close()

    def log(self, kind, *args):
        self.world.log(self.name, kind, *args)

    # controller -> peer
    def on_write(self, data: bytes):
        if self.write_error is not None:
            err, self.write_error = self.write_error, None
            self.world.faults["stream_write_error"] += 1
            self.log("write-error", type(err).__name__)
            return err
        self.received += data
        self.log("recv", len(data))
        if self.slow_consumer and self.transport is not None:
            self.transport._buffered += len(data)
        return None

    def consume(self, nbytes: int | None = None) -> None:
        if self.transport is not None:
            n = self.transport._buffered if nbytes is None else nbytes
            self.log("consume", n)
            self.transport.consumed(n)

    def on_close(self):
        err, self.close_error = self.close_error, None
        if err is not None:
            self.world.faults["stream_close_error"] += 1
        return err

    # peer -> controller
    def send(self, data: bytes) -> None:
        if self.transport is None:
            return
        if self.transport._paused_reading:
            self._pending.append(data)
            return
        self.log("send", len(data))
        self.transport.deliver(data)

    def _flush_pending(self):
        pend, self._pending = self._pending, []
        for d in pend:
            self.send(d)

    def send_eof(self) -> None:
        if self.transport is not None:
            self.log("eof")
            self.world.faults["stream_eof"] += 1
            self.transport.deliver_eof()

    def reset(self, exc=None) -> None:
        if self.transport is not None:
            self.log("reset")
            self.world.faults["stream_reset"] += 1
            self.transport.reset(exc)


def install_network(world, peer: SimPeer) -> None:
    """Route loop.create_connection (TCP) to the peer."""

    async def factory(protocol_factory, host, port):
        lat = world.tapes.next("connect.lat", 0)
        if lat:
            await asyncio.sleep(lat)
        fail = world.tapes.next("connect.fail", 0)
        if fail:
            world.faults["connect_fail"] += 1
            world.log("net", "connect-fail", fail)
            raise CONNECT_ERRORS[fail]()
        protocol = protocol_factory()
        tr = SimStreamTransport(world.loop, protocol, peer)
        peer.transport = tr
        peer.connected = True
        world.log("net", "connected", host, port)
        world.loop.call_soon(protocol.connection_made, tr)
        await asyncio.sleep(0)
        return tr, protocol

    world.loop.connection_factory = factory


def make_open_serial_connection(world, peer: SimPeer):
    """Replacement for aiomysensors.transport.serial.open_serial_connection."""

    async def open_serial_connection(*, loop=None, limit=None, **kwargs):
        lat = world.tapes.next("connect.lat", 0)
        if lat:
            await asyncio.sleep(lat)
        fail = world.tapes.next("connect.fail", 0)
        if fail:
            world.faults["connect_fail"] += 1
            world.log("serial", "open-fail", fail)
            raise CONNECT_ERRORS["serial" if fail in ("refused", "timeout", "gaierror") else fail]()
        lp = asyncio.get_running_loop()
        reader = asyncio.StreamReader(limit=limit or 2 ** 16, loop=lp)
        protocol = asyncio.StreamReaderProtocol(reader, loop=lp)
        tr = SimStreamTransport(lp, protocol, peer)
        peer.transport = tr
        peer.connected = True
        world.log("serial", "opened", kwargs.get("url"), kwargs.get("baudrate"))
        protocol.connection_made(tr)
        writer = asyncio.StreamWriter(tr, protocol, reader, lp)
        return reader, writer

    return open_serial_connection

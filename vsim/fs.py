"""SimFS: a simulated raw block device behind Python's real io stack.

``aiofiles.threadpool.sync_open`` (the seam the repo's own tests patch) is
replaced by ``SimDisk.sync_open`` which returns a REAL
``io.TextIOWrapper(io.BufferedWriter|BufferedReader(SimRawIO))``: Python's own
encoding and buffering layers run, and the simulated device sees the true
sequence of raw operations (open+truncate, write(n bytes) possibly short, read,
close), journals them, and is where faults are injected:

* OSError on open/read/write/close at a chosen raw-operation index,
* short writes (device write limit),
* crash = process death at raw operation k (optionally with that write torn at
  byte j): the bytes on the device at that instant are the durable image; every
  later operation is ignored.  (OS page cache survives, user-space buffers do
  not; power loss / fsync is out of scope.)
"""

from __future__ import annotations

import errno
import os
import io

from .loop import SimCrash

ERRNO = {"EIO": errno.EIO, "ENOSPC": errno.ENOSPC, "EACCES": errno.EACCES, "EMFILE": errno.EMFILE,
         "EISDIR": errno.EISDIR, "EROFS": errno.EROFS}


class SimDisk:
    def __init__(self, world=None) -> None:
        self.world = world
        self.files: dict[str, bytearray] = {}
        self.journal: list[tuple] = []
        self.nops = 0  # raw operations attempted so far (the fault / crash index space)
        self.faults: dict[int, str] = {}  # op index -> errno name
        self.fault_on: dict[str, list] = {}  # op kind -> tape of errno names / 0
        self.crash_at: int | None = None
        self.torn: int | None = None
        self.write_limit: int | None = None
        self.read_limit: int | None = None
        self.frozen = False
        self.fired: dict[str, int] = {}
        self.mutating_ops = 0
        self.next_rid = 0  # deterministic id of each raw file object

    # -- helpers -----------------------------------------------------------
    def _fire(self, name: str) -> None:
        self.fired[name] = self.fired.get(name, 0) + 1
        if self.world is not None:
            self.world.faults[name] += 1

    def _log(self, *ev) -> None:
        self.journal.append(ev)
        if self.world is not None:
            self.world.log("disk", *ev)

    def op(self, kind: str, path: str, nbytes: int = 0):
        """Account one raw operation. Returns torn byte count or None; raises on fault."""
        if self.frozen:
            return "frozen"
        idx = self.nops
        self.nops += 1
        if self.crash_at is not None and idx == self.crash_at:
            self.frozen = True
            self._fire("crash")
            self._log("crash", kind, path, idx, self.torn)
            return ("crash", self.torn)
        name = self.faults.get(idx)
        if name is None:
            tape = self.fault_on.get(kind)
            if tape:
                name = tape.pop(0) or None
        if name:
            self._fire(f"disk_{kind}_{name}")
            self._log("fault", kind, path, idx, name)
            raise OSError(ERRNO[name], f"sim: {name} on {kind}", path)
        return None

    def image(self, path: str) -> bytes | None:
        f = self.files.get(path)
        return None if f is None else bytes(f)

    def snapshot(self) -> dict[str, bytes]:
        return {p: bytes(b) for p, b in self.files.items()}

    # -- the seam ------------------------------------------------------------
    def sync_open(self, file, mode="r", buffering=-1, encoding=None, errors=None, newline=None,
                  closefd=True, opener=None):
        path = str(file)
        flags = None
        if opener is not None:
            # open(..., opener=f): CPython hands f the flags it derived from the mode and uses the descriptor f returns.
            # The os.open() call inside f is captured, and the flags it REALLY used decide what happens to the file
            # (an opener that forgets O_TRUNC does not truncate).
            acc = os.O_RDWR if "+" in mode else (os.O_RDONLY if "r" in mode else os.O_WRONLY)
            pyflags = acc | getattr(os, "O_CLOEXEC", 0)
            if "w" in mode:
                pyflags |= os.O_CREAT | os.O_TRUNC
            elif "x" in mode:
                pyflags |= os.O_CREAT | os.O_EXCL
            elif "a" in mode:
                pyflags |= os.O_CREAT | os.O_APPEND
            captured = {}
            real_os_open = os.open

            def sim_os_open(p, fl, mode=0o777, *, dir_fd=None):  # noqa: ARG001
                captured["flags"] = fl
                return 987654

            os.open = sim_os_open
            try:
                opener(path, pyflags)
            finally:
                os.open = real_os_open
            flags = captured.get("flags", pyflags)
            self._log("opener", path, flags)
        raw = SimRawIO(self, path, mode, flags=flags)
        binary = "b" in mode
        if raw.writable() and not raw.readable():
            buf = io.BufferedWriter(raw, buffer_size=buffering if buffering and buffering > 1 else io.DEFAULT_BUFFER_SIZE)
        elif raw.readable() and not raw.writable():
            buf = io.BufferedReader(raw)
        else:
            buf = io.BufferedRandom(raw)
        if binary:
            return buf
        return io.TextIOWrapper(buf, encoding=encoding, errors=errors, newline=newline)

    def replace(self, src, dst) -> None:
        """os.replace / os.rename on simulated paths (atomic)."""
        src, dst = str(src), str(dst)
        r = self.op("rename", src)
        if r == "frozen":
            return
        if isinstance(r, tuple):
            raise SimCrash
        if src not in self.files:
            raise FileNotFoundError(errno.ENOENT, "sim: no such file", src)
        self.files[dst] = self.files.pop(src)
        self.mutating_ops += 1
        self._log("rename", src, dst)


    def _remove(self, path) -> None:
        path = str(path)
        r = self.op("remove", path)
        if r == "frozen":
            return
        if isinstance(r, tuple):
            raise SimCrash
        if path not in self.files:
            raise FileNotFoundError(errno.ENOENT, "sim: no such file", path)
        del self.files[path]
        self.mutating_ops += 1
        self._log("remove", path)

    remove = _remove


class SimRawIO(io.RawIOBase):
    def __init__(self, disk: SimDisk, path: str, mode: str, flags: int | None = None) -> None:
        super().__init__()
        self.disk = disk
        self.path = path
        self.mode = mode
        self._r = "r" in mode or "+" in mode
        self._w = any(c in mode for c in "wax+")
        self._pos = 0
        self.name = path
        self.rid = disk.next_rid
        disk.next_rid += 1
        r = disk.op("open", path)
        if isinstance(r, tuple):
            raise SimCrash
        if r == "frozen":
            return
        if flags is not None:  # opened through an opener: the flags given to os.open() rule
            exists = path in disk.files
            if flags & os.O_CREAT and flags & os.O_EXCL and exists:
                raise FileExistsError(errno.EEXIST, "sim: exists", path)
            if not exists:
                if not flags & os.O_CREAT:
                    disk._log("open-missing", path)
                    raise FileNotFoundError(errno.ENOENT, "sim: no such file", path)
                disk.files[path] = bytearray()
            if flags & os.O_TRUNC:
                disk.files[path] = bytearray()
            if self._w:
                disk.mutating_ops += 1
            if flags & os.O_APPEND:
                self._pos = len(disk.files[path])
        elif "r" in mode:  # "r" and "r+": the file must exist, nothing is truncated
            if path not in disk.files:
                disk._log("open-missing", path)
                raise FileNotFoundError(errno.ENOENT, "sim: no such file", path)
        elif "w" in mode:
            disk.files[path] = bytearray()  # create / truncate in place
            disk.mutating_ops += 1
        elif "x" in mode:
            if path in disk.files:
                raise FileExistsError(errno.EEXIST, "sim: exists", path)
            disk.files[path] = bytearray()
        elif "a" in mode:
            disk.files.setdefault(path, bytearray())
            self._pos = len(disk.files[path])
        disk._log("open", path, mode, self.rid)

    def readable(self):
        return self._r

    def writable(self):
        return self._w

    def seekable(self):
        return True

    def tell(self):
        return self._pos

    def seek(self, offset, whence=0):
        data = self.disk.files.get(self.path, b"")
        if whence == 0:
            pos = offset
        elif whence == 1:
            pos = self._pos + offset
        else:
            pos = len(data) + offset
        if pos < 0:
            raise OSError(errno.EINVAL, "sim: negative seek position")
        self._pos = pos
        return pos

    def truncate(self, size=None):
        size = self._pos if size is None else size
        r = self.disk.op("truncate", self.path)
        if r == "frozen":
            return size
        if isinstance(r, tuple):
            raise SimCrash
        f = self.disk.files.setdefault(self.path, bytearray())
        if size < len(f):
            del f[size:]
        else:
            f.extend(b"\0" * (size - len(f)))
        self.disk.mutating_ops += 1
        self.disk._log("truncate", self.path, size, self.rid)
        return size

    def fileno(self):
        raise OSError("sim: no file descriptor")

    def isatty(self):
        return False

    def readinto(self, b) -> int:
        r = self.disk.op("read", self.path)
        if isinstance(r, tuple):
            raise SimCrash
        if r == "frozen":
            return 0
        data = self.disk.files.get(self.path, b"")
        n = min(len(b), len(data) - self._pos)
        if self.disk.read_limit:
            n = min(n, self.disk.read_limit)
        n = max(n, 0)
        b[:n] = data[self._pos:self._pos + n]
        self._pos += n
        self.disk._log("read", self.path, n)
        return n

    def write(self, b) -> int:
        data = bytes(b)
        r = self.disk.op("write", self.path, len(data))
        if r == "frozen":
            return len(data)
        if isinstance(r, tuple):
            torn = r[1]
            if torn:
                k = min(int(torn), len(data))
                self._apply(data[:k])
                self.disk._log("torn-write", self.path, k, len(data))
            raise SimCrash
        n = len(data)
        if self.disk.write_limit:
            n = min(n, self.disk.write_limit)
            if n < len(data):
                self.disk._fire("short_write")
        self._apply(data[:n])
        self.disk._log("write", self.path, n, len(data), self.rid)
        return n

    def _apply(self, data: bytes) -> None:
        f = self.disk.files.setdefault(self.path, bytearray())
        if "a" in self.mode:
            self._pos = len(f)
        if self._pos > len(f):
            f.extend(b"\0" * (self._pos - len(f)))
        f[self._pos:self._pos + len(data)] = data
        self._pos += len(data)
        self.disk.mutating_ops += 1

    def close(self) -> None:
        if self.closed:
            return
        try:
            r = self.disk.op("close", self.path)
            if isinstance(r, tuple):
                raise SimCrash
            if r != "frozen":
                self.disk._log("close", self.path, self.rid)
        finally:
            super().close()


class patched_fs:
    """Context manager installing a SimDisk behind aiofiles (and os.replace/rename for simulated paths)."""

    def __init__(self, disk: SimDisk) -> None:
        self.disk = disk

    def __enter__(self):
        import os

        import aiofiles.threadpool as tp

        self._tp = tp
        self._old_open = tp.sync_open
        tp.sync_open = self.disk.sync_open
        self._os = os
        self._old_replace, self._old_rename = os.replace, os.rename
        disk = self.disk

        def replace(src, dst, *a, **k):
            if str(src).startswith("/sim/") or str(dst).startswith("/sim/"):
                return disk.replace(src, dst)
            return self._old_replace(src, dst, *a, **k)

        os.replace = replace
        os.rename = replace
        # aiofiles.os.* wrap the os functions captured at import time: route them as well
        import asyncio
        import functools

        import aiofiles.os as aos

        self._aos = aos
        self._old_aos = {name: getattr(aos, name) for name in ("replace", "rename", "remove", "unlink") if hasattr(aos, name)}

        def make(name, old):
            async def run(*args, loop=None, executor=None, **kwargs):
                if any(str(a).startswith("/sim/") for a in args):
                    lp = loop or asyncio.get_running_loop()
                    if name in ("replace", "rename"):
                        return await lp.run_in_executor(executor, functools.partial(disk.replace, *args))
                    return await lp.run_in_executor(executor, functools.partial(disk.remove, *args))
                return await old(*args, loop=loop, executor=executor, **kwargs)

            return run

        for name, old in self._old_aos.items():
            setattr(aos, name, make(name, old))
        return self.disk

    def __exit__(self, *exc):
        self._tp.sync_open = self._old_open
        self._os.replace, self._os.rename = self._old_replace, self._old_rename
        for name, old in self._old_aos.items():
            setattr(self._aos, name, old)
        return False

"""Generic executor for gateway-level, model-checked scenarios.

A scenario is plain JSON:
  {"cfg": {"pin": "2.1"|null, "metric": true, "tz": "UTC", "tz_offset": 0, "epoch": 1700000000},
   "ops": [["line", text], ["send", [n,c,cmd,ack,t,p], buffer], ["relisten"],
           ["reboot", n, flag], ["clock", seconds], ["restore", {node snapshot}], ["readerr", cls]],
   "tapes": {"w.lat": [...], "w.fail.set": [...], ...}}
Every op is executed on the real Gateway (on SimLoop/SimTransport) and checked
by the reference model; discrepancies whose aspect the property owns become
violations.
"""

from __future__ import annotations

import datetime
import os
import time as _real_time
import zoneinfo

from .core import RunResult
from .gw import GwWorld, gc_paused, snapshot_nodes
from .model import Model

from aiomysensors.model.node import Child, Node  # noqa: E402  (repo, via use_repo in gw)
import aiomysensors.model.protocol.protocol_14 as _p14  # noqa: E402


def utc_offset(cfg, epoch: int) -> int:
    if "tz_offset" in cfg and cfg["tz_offset"] is not None:
        return int(cfg["tz_offset"])
    tz = cfg.get("tz", "UTC")
    z = zoneinfo.ZoneInfo(tz)
    return int(datetime.datetime.fromtimestamp(epoch, z).utcoffset().total_seconds())


def restore_nodes(gateway, snap: dict) -> None:
    for key, d in snap.items():
        n = int(key)
        node = Node(n, d["type"], d["version"], sketch_name=d.get("sketch_name", ""),
                    sketch_version=d.get("sketch_version", ""), battery_level=d.get("battery", 0),
                    heartbeat=d.get("heartbeat", 0), sleeping=d.get("sleeping", False))
        for ck, c in d.get("children", {}).items():
            node.children[int(ck)] = Child(int(ck), c["type"], description=c.get("desc", ""),
                                           values={int(t): v for t, v in c.get("values", {}).items()})
        gateway.nodes[n] = node


def norm_snap(snap: dict) -> dict:
    out = {}
    for key, d in snap.items():
        out[int(key)] = {
            "type": d["type"], "version": d["version"], "sketch_name": d.get("sketch_name", ""),
            "sketch_version": d.get("sketch_version", ""), "battery": d.get("battery", 0),
            "heartbeat": d.get("heartbeat", 0), "sleeping": d.get("sleeping", False),
            "children": {int(ck): {"type": c["type"], "desc": c.get("desc", ""),
                                   "values": {int(t): v for t, v in c.get("values", {}).items()}}
                         for ck, c in d.get("children", {}).items()},
        }
    return out


def execute(scn: dict, prop: str, aspects, on_step=None, send_strict=(1,), keep=None) -> RunResult:
    """Run a scenario; report discrepancies whose aspect starts with one of `aspects`."""
    res = RunResult()
    cfg = scn.get("cfg", {})
    old_tz = os.environ.get("TZ")
    tz = cfg.get("tz")
    if tz:
        os.environ["TZ"] = tz
        _real_time.tzset()
    with gc_paused():
        w = GwWorld(cfg, scn.get("tapes"))
        clock = w.clock
        now = w.now
        if cfg.get("link") == "tcp":
            res.probes["full_stack_tcp"] += 1
        model = Model(metric=cfg.get("metric", True), version=cfg.get("pin"))
        step_now = {"t": now()}
        model.local_epoch = lambda: step_now["t"] + utc_offset(cfg, step_now["t"])
        try:
            for i, op in enumerate(scn.get("ops", [])):
                kind = op[0]
                disc = []
                obs = None
                step_now["t"] = now()
                if kind == "line":
                    obs = w.listen_step(op[1])
                    disc = model.step(op[1], obs)
                elif kind == "send":
                    obs = w.send_step(op[1], op[2] if len(op) > 2 else True)
                    disc = model.check_send(tuple(op[1]), op[2] if len(op) > 2 else True, obs, strict_cmds=send_strict)
                elif kind == "relisten":
                    w.relisten()
                elif kind == "restart":
                    if w.disk is not None:
                        seen = w.restart(bool(op[1]) if len(op) > 1 else False)
                        res.probes["process_restart"] += 1
                        # a new process: buffers, request markers, reboot flags and the negotiated version are gone;
                        # the registry is what the file held (the final save ran on a healthy disk)
                        model.parked.clear()
                        model.stale_ok.clear()
                        model.pres_outstanding.clear()
                        model.pres_maybe.clear()
                        model.handed_out.clear()  # a new process knows what the file says, nothing else
                        model.held_other.clear()
                        for node in model.nodes.values():
                            node["reboot"] = False
                        model.version, model.proto = None, "1.4"
                        if cfg.get("pin"):
                            model.pin(cfg["pin"])
                        if seen[0] is not None or seen[-1] is not None:
                            disc.append(("outcome", f"restart-raised:{seen}", str(op)))
                        if len(seen) == 3 and seen[1] not in ("PersistenceReadError",):
                            disc.append(("outcome", f"load-fault-not-reported:{seen[1]}", str(op)))
                        # whatever happened at the failed entry, the registry of the new process must be the saved one
                        d2: list = []
                        from .model import Obs
                        model._check_registry(Obs("ok", nodes=snapshot_nodes(w.gateway)), d2, "after-restart")
                        disc.extend(d2)
                elif kind == "other_gateway_imperial":
                    w.other_gateway_goes_imperial()
                    res.probes["second_gateway_object"] += 1
                elif kind == "diskfault":
                    if w.disk is not None:
                        w.disk.fault_on.setdefault(op[1], []).extend(op[2])
                        w.log("harness", "diskfault", op[1], tuple(op[2]))
                elif kind == "reenter":
                    # same Gateway object, new session: nothing the properties talk about may be forgotten
                    if cfg.get("link", "sim") == "sim":
                        err = w.reenter()
                        res.probes["context_reentered"] += 1
                        if err and not (w.disk is not None and err in ("PersistenceWriteError", "PersistenceReadError")):
                            disc.append(("outcome", f"reenter-raised:{err}", str(op)))
                        if w.disk is not None:
                            # the reboot flag is not part of the persisted record: after a reload it is whatever the
                            # reloaded Node objects say
                            for nid, node in model.nodes.items():
                                if nid in w.gateway.nodes:
                                    node["reboot"] = bool(w.gateway.nodes[nid].reboot)
                        if w.disk is not None and w.disk.fired:
                            # a failed save followed by a reload may bring back older attributes of nodes that are in
                            # the file (disk faults are outside every gateway-level property): adopt those attributes,
                            # but never forget a node - the node SET must still be what the model says
                            snap = snapshot_nodes(w.gateway)
                            for nid, d in snap.items():
                                if nid in model.nodes:
                                    keep_reboot = model.nodes[nid]["reboot"]
                                    model.load_registry_keep_flags({**model.snapshot(), nid: d})
                                    model.nodes[nid]["reboot"] = keep_reboot
                            model.relaxations["stale-attributes-after-failed-save"] += 1
                elif kind == "reboot":
                    n = op[1]
                    if n in w.gateway.nodes:
                        w.gateway.nodes[n].reboot = bool(op[2])
                    if n in model.nodes:
                        model.nodes[n]["reboot"] = bool(op[2])
                elif kind == "clock":
                    clock["jump"] += int(op[1])
                    res.faults["clock_jump"] += 1
                    w.log("clock", "jump", op[1])
                elif kind == "sleep":
                    w.loop.advance(float(op[1]))
                elif kind == "restore":
                    restore_nodes(w.gateway, op[1])
                    model.load_registry(norm_snap(op[1]))
                    w.log("harness", "restore", len(op[1]))
                elif kind == "readerr":
                    obs = w.listen_step(None, read_err=op[1])
                    if not (obs.kind == "err" and obs.cls == op[1]):
                        disc.append(("outcome", f"read-error-not-propagated:{obs.kind}:{obs.cls}", str(op)))
                    if obs.writes:
                        disc.append(("writes.other", "write-after-read-error", repr(obs.writes)))
                else:
                    raise ValueError(f"unknown op {op!r}")
                res.ops += 1
                if obs is not None and w.loop.unhandled:
                    for u in w.loop.unhandled:
                        disc.append(("outcome", f"unhandled-in-loop:{u['exc']}", str(u)))
                    w.loop.unhandled.clear()
                for aspect, site, detail in disc:
                    if any(aspect.startswith(a) for a in aspects) and (keep is None or keep(aspect, site)):
                        res.violate(prop, aspect, site, f"op#{i} {op!r}: {detail}")
                res.states.add(model.state_key())
                if on_step is not None:
                    on_step(i, op, obs, disc, model, w, res)
        finally:
            res.digest = w.elog.digest()
            res.vt = w.loop.time()
            res.steps = w.loop.steps
            res.faults.update(w.faults)
            res.relaxations.update(model.relaxations)
            w.close()
            if tz:
                if old_tz is None:
                    os.environ.pop("TZ", None)
                else:
                    os.environ["TZ"] = old_tz
                _real_time.tzset()
    return res

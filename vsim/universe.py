"""The "universe" generator: rich mixed histories over every operation kind.

The focused generator of each property concentrates on the situations its
statement names.  Independent seeded changes showed that breakage often sits
in the *interplay* with something the statement does not mention (a version
report between parking and wake, the same Gateway object entered twice, a
value request from a sleeping node, a disk fault before a reconnect ...).
Every gateway-level property therefore also runs a share of its scenarios from
this generator, judged with that property's own aspect filter: the reference
model checks all aspects of every step anyway.
"""

from __future__ import annotations

from . import gen as G
from .gwrun import execute

TZS = [("UTC", None), ("AAA-5:30", 19800), ("BBB+3", -10800), ("Europe/Stockholm", None), ("America/St_Johns", None)]


def gen_universe(rng, tier: str = "quick") -> dict:
    proto = rng.choice(G.PROTOS)
    is2x = proto in G.PROTOS_2X
    tz, off = rng.choice(TZS)
    cfg = {"pin": proto if rng.random() < 0.6 else None, "metric": rng.random() < 0.5, "tz": tz, "tz_offset": off,
           "epoch": rng.choice([0, 951782400, 1_700_000_000, 1711846799, 2_147_483_647])}
    nodes = rng.sample([0, 1, 2, 3, 9, 100, 253, 254, 255], rng.randint(1, 4))
    strangers = [n for n in (4, 5, 77) if n not in nodes]
    children = rng.sample([0, 1, 7, 254], rng.randint(1, 3))
    types = rng.sample([0, 1, 2, 3, 6, 9, 14, 19, 22, 24, 47], 4)
    ops: list = []
    if rng.random() < 0.25:
        ops.append(["restore", {str(n): {"type": 17, "version": proto, "sleeping": rng.random() < 0.5,
                                         "children": {str(c): {"type": 3, "desc": "c"} for c in children}}
                                for n in rng.sample(nodes, rng.randint(1, len(nodes)))}])
    elif rng.random() < 0.07:
        # a network that has (nearly) used up the id space: every id 1..254 taken except a few, with or without the
        # gateway's own node 0 and a stray 255 - what an installation looks like after years of id requests
        dense = set(range(1, 255)) - set(rng.sample(range(1, 255), rng.choice([0, 0, 0, 1, 2, 3])))
        if rng.random() < 0.5:
            dense.add(0)
        if rng.random() < 0.2:
            dense.add(255)
        ops.append(["restore", {str(n): {"type": 17, "version": proto, "sleeping": False, "children": {}}
                                for n in sorted(dense)}])
        for _ in range(rng.randint(1, 4)):
            ops.append(["line", f"255;255;3;0;3;\n"])
    if cfg["pin"] is None and rng.random() < 0.7:
        ops.append(["line", rng.choice([f"0;255;3;0;2;{proto}\n", f"0;255;0;0;18;{proto}\n", f"0;255;3;0;2;{proto}.0\n"])])
    cur = proto  # protocol the device speaks right now (for the wake signal)
    hb = 0
    n_ops = rng.randint(5, 40 if tier == "quick" else 80)
    for _ in range(n_ops):
        r = rng.random()
        n = rng.choice(nodes + nodes + strangers[:1])
        c = rng.choice(children)
        hb += 1
        if r < 0.10:
            ver = proto if n else cur
            if n and rng.random() < 0.2:
                # what a node says about its library version is free text as far as the registry is concerned
                ver = rng.choice(["", "2", "beta", "2.x", "1.4.0-rc1", "n/a", "2.2.0 (custom)"])
            ops.append(["line", f"{n};255;0;0;{rng.choice([17, 18])};{ver}\n"])
        elif r < 0.18:
            ops.append(["line", f"{n};{c};0;0;{rng.choice([0, 3, 6, 9, 14])};{G.payload(rng)}\n"])
        elif r < 0.30:
            ops.append(["line", f"{n};{c};1;{rng.choice([0, 0, 1])};{rng.choice(types)};{G.payload(rng, semi=True)}\n"])
        elif r < 0.36:
            ops.append(["line", f"{n};{c};2;0;{rng.choice(types)};\n"])
        elif r < 0.41:
            ops.append(["line", f"{rng.choice([n, 255])};{rng.choice([255, 255, c])};3;0;3;\n"])
        elif r < 0.45:
            ops.append(["line", f"{n};255;3;0;{rng.choice([1, 6])};\n"])
        elif r < 0.49:
            ops.append(["line", rng.choice(["0;255;3;0;14;Gateway startup complete.\n", "0;255;3;0;9;log\n"])])
        elif r < 0.55:
            t = rng.choice([0, 11, 12])
            ops.append(["line", f"{n};255;3;0;{t};{rng.choice(['0', '55', '100']) if t == 0 else G.payload(rng)}\n"])
        elif r < 0.63 and cur in G.PROTOS_2X:
            ops.append(["line", G.wake_line(cur, n, hb)])
        elif r < 0.66 and cur in G.PROTOS_2X:
            ops.append(["line", f"{n};255;3;0;22;{hb}\n"])
        elif r < 0.69:
            t = rng.choice([5, 7, 8, 10, 13, 15, 17, 18, 19, 20, 21, 23, 28, 29, 33, 40, -1])
            ops.append(["line", f"{n};255;{rng.choice([3, 3, 4])};0;{t};{rng.choice(['', '1'])}\n"])
        elif r < 0.80:
            dest = rng.choice(nodes + strangers[:1])
            ops.append(["send", [dest, c, 1, rng.choice([0, 0, 1]), rng.choice(types), G.payload(rng)],
                        rng.random() < 0.85])
        elif r < 0.83:
            ops.append(["send", [rng.choice(nodes), 255, 3, 0, rng.choice([13, 18, 19, 24]), ""], rng.random() < 0.7])
        elif r < 0.86:
            # the gateway reports its version again (same, or - rarely - another one after an update)
            if rng.random() < 0.25:
                cur = rng.choice(G.PROTOS)
            ops.append(["line", rng.choice([f"0;255;3;0;2;{cur}\n", f"0;255;0;0;18;{cur}\n", f"0;255;3;0;2;{cur}.1\n"])])
        elif r < 0.89:
            ops.append(["relisten"])
        elif r < 0.92:
            ops.append(["reenter"])
        elif r < 0.94:
            ops.append(["reboot", rng.choice(nodes), rng.random() < 0.7])
        elif r < 0.96:
            ops.append(["clock", rng.choice([-3600, 1, 86400])])
        elif r < 0.98:
            text, _tag = G.hostile(rng, f"{n};{c};1;0;2;{G.payload(rng)}\n", None)
            ops.append(["line", text])
        else:
            text, _tag = G.absurd_payload(rng, cur, n)
            ops.append(["line", text])
    for n in nodes:
        if cur in G.PROTOS_2X:
            ops.append(["line", G.wake_line(cur, n, 99)])
    tapes = {}
    if rng.random() < 0.25:
        tapes["w.fail.set"] = [rng.choice([0, 0, 0, 1, 2]) for _ in range(rng.randint(1, 6))]
    if rng.random() < 0.15:
        tapes["w.fail.pres"] = [rng.choice([0, 1, 2]) for _ in range(rng.randint(1, 3))]
    if rng.random() < 0.12:
        tapes["w.fail.idresp"] = [rng.choice([0, 1, 2]) for _ in range(rng.randint(1, 3))]
    if rng.random() < 0.1:
        tapes["w.fail.other"] = [rng.choice([0, 0, 1, 2]) for _ in range(rng.randint(1, 4))]
    if rng.random() < 0.3:
        tapes["w.lat"] = [rng.choice([0, 1, 2]) for _ in range(rng.randint(1, 8))]
    scn = {"kind": "universe", "cfg": cfg, "ops": ops, "tapes": tapes}
    r = rng.random()
    if r < 0.12 and not any(k.startswith("w.fail") for k in tapes):
        scn["cfg"]["persist"] = True
        k = rng.randint(0, len(ops))
        if rng.random() < 0.5:
            scn["ops"] = ops[:k] + [["diskfault", rng.choice(["open", "write"]), [rng.choice(["ENOSPC", "EIO"])]]] + ops[k:]
        else:
            scn["ops"] = [op for op in ops[:k] if op[0] != "reenter"] + [["restart", rng.random() < 0.5]] + ops[k:]
        scn["tapes"] = {}
    else:
        scn = G.maybe_tcp(rng, scn, share=0.15)
    return scn


def run_universe(scn: dict, prop: str, aspects, keep=None, send_strict=(1,), on_step=None):
    res = execute(scn, prop, aspects, keep=keep, send_strict=send_strict, on_step=on_step)
    res.probes["universe_scenarios"] += 1
    res.nontrivial_key = "U:" + res.digest[:24]
    return res

"""Simulated MQTT broker + aiomqtt client stub.

``SimMqttClient`` subclasses the REAL ``aiomqtt.Client`` and overrides only
``__aenter__/__aexit__/publish/subscribe`` (no paho socket is ever opened), so
the real aiomqtt incoming queue, ``_disconnected`` future and
``MessagesIterator`` run: what happens when the receive task is cancelled or
the broker goes away is real aiomqtt behaviour.  The broker does MQTT
topic-filter matching on the subscriptions actually made, records
publications, applies tape latencies and injects MqttError on
connect/subscribe/publish and unexpected disconnects.
"""

from __future__ import annotations

import asyncio

import aiomqtt
from aiomqtt import MqttCodeError, MqttError


def topic_matches(filt: str, topic: str) -> bool:
    f = filt.split("/")
    t = topic.split("/")
    for i, part in enumerate(f):
        if part == "#":
            return True
        if i >= len(t):
            return False
        if part != "+" and part != t[i]:
            return False
    return len(f) == len(t)


class SimBroker:
    def __init__(self, world) -> None:
        self.world = world
        self.client: "SimMqttClient | None" = None
        self.subscriptions: list[tuple[str, int]] = []
        self.published: list[tuple[str, object, int, bool]] = []
        self.connected = False
        self.mid = 0
        self.echo = None  # (out_prefix, in_prefix): republish controller output as gateway input
        self.dropped_unmatched: list[str] = []
        self.connects = 0
        self.disconnects = 0

    def log(self, kind, *args):
        self.world.log("broker", kind, *args)

    def inject(self, topic: str, payload: bytes, qos: int = 0) -> bool:
        """A message arrives at the broker for delivery to the client."""
        if self.client is None or not self.connected:
            self.log("inject-no-client", topic)
            return False
        matched = [q for f, q in self.subscriptions if topic_matches(f, topic)]
        if not matched:
            self.dropped_unmatched.append(topic)
            self.log("inject-unmatched", topic)
            return False
        self.mid += 1
        msg = aiomqtt.Message(topic, payload, min(qos, max(matched)), False, self.mid, None)
        self.client._queue.put_nowait(msg)
        self.log("deliver", topic, len(payload))
        return True

    def drop_connection(self, rc: int = 7) -> None:
        """Unexpected disconnection (network gone / broker restart)."""
        c = self.client
        self.connected = False
        self.world.faults["mqtt_broker_disconnect"] += 1
        self.log("drop-connection")
        if c is not None and not c._disconnected.done():
            c._disconnected.set_exception(MqttCodeError(rc, "Unexpected disconnection"))


class SimMqttClient(aiomqtt.Client):
    broker: SimBroker  # set by make_client_class

    async def __aenter__(self):
        b = self.broker
        w = b.world
        lat = w.tapes.next("mqtt.connect.lat", 0)
        if lat:
            await asyncio.sleep(lat)
        if w.tapes.next("mqtt.connect.fail", 0):
            w.faults["mqtt_connect_fail"] += 1
            b.log("connect-refused")
            raise MqttError("sim: connection refused")
        if self._disconnected.done():
            self._disconnected = asyncio.Future()
        b.client = self
        b.connected = True
        b.connects += 1
        b.subscriptions = []
        b.log("connect")
        return self

    async def __aexit__(self, exc_type, exc, tb):
        b = self.broker
        w = b.world
        b.disconnects += 1
        b.log("disconnect")
        lat = w.tapes.next("mqtt.disconnect.lat", 0)
        if lat:
            await asyncio.sleep(lat)
        b.connected = False
        if self._disconnected.done():
            return
        if w.tapes.next("mqtt.disconnect.fail", 0):
            w.faults["mqtt_disconnect_fail"] += 1
            self._disconnected.set_result(None)
            raise MqttError("sim: error while disconnecting")
        self._disconnected.set_result(None)

    async def publish(self, topic, payload=None, qos=0, retain=False, properties=None, *args, timeout=None, **kwargs):
        b = self.broker
        w = b.world
        b.log("publish-start", str(topic), repr(payload), qos)
        lat = w.tapes.next("mqtt.publish.lat", 0)
        fail = w.tapes.next("mqtt.publish.fail", 0)
        if timeout is not None and lat > timeout:
            await asyncio.sleep(timeout)
            w.faults["mqtt_publish_timeout"] += 1
            raise MqttError("sim: operation timed out")
        if fail == 1:
            w.faults["mqtt_publish_fail"] += 1
            raise MqttCodeError(4, "sim: could not publish")
        if lat:
            w.faults["mqtt_publish_suspended"] += 1
            await asyncio.sleep(lat)
        if not b.connected:
            w.faults["mqtt_publish_fail"] += 1
            raise MqttCodeError(4, "sim: not connected")
        if fail == 2:
            w.faults["mqtt_publish_fail"] += 1
            raise MqttError("sim: publish not acknowledged")
        b.published.append((str(topic), payload, qos, retain))
        b.log("publish", str(topic), repr(payload), qos)
        if b.echo is not None:
            outp, inp = b.echo
            t = str(topic)
            if t.startswith(outp + "/"):
                data = payload if isinstance(payload, (bytes, bytearray)) else \
                    (b"" if payload is None else str(payload).encode("utf-8"))
                b.inject(inp + t[len(outp):], bytes(data), qos)

    async def subscribe(self, topic, qos=0, options=None, properties=None, *args, timeout=None, **kwargs):
        b = self.broker
        w = b.world
        lat = w.tapes.next("mqtt.subscribe.lat", 0)
        if lat:
            await asyncio.sleep(lat)
        if w.tapes.next("mqtt.subscribe.fail", 0):
            w.faults["mqtt_subscribe_fail"] += 1
            raise MqttError("sim: subscribe failed")
        b.subscriptions.append((str(topic), qos))
        b.log("subscribe", str(topic), qos)
        return (qos,)


def make_client_class(broker: SimBroker):
    return type("BoundSimMqttClient", (SimMqttClient,), {"broker": broker})

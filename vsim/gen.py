"""Traffic generators shared by the gateway-level properties.

Everything is derived from one ``random.Random`` seeded with a string
(sha512-based, independent of PYTHONHASHSEED).
"""

from __future__ import annotations

PROTOS = ["1.4", "1.5", "2.0", "2.1", "2.2"]
PROTOS_2X = ["2.0", "2.1", "2.2"]
INTERNAL_MAX = {"1.4": 14, "1.5": 17, "2.0": 28, "2.1": 28, "2.2": 33}

PAYLOADS = ["", "0", "1", "20.5", "-3", "on", "hello world", "a b  c", "ünï cödé", "温度", "x" * 40,
            "1e3", "0.0", "OFF", "55.722526,13.017972", "a/b", "#ff00aa", "%", "'q'", "\tlead", "né"]
PAYLOADS_SEMI = ["55.722526;13.017972;18", "a;b", ";", ";;", "x;", ";y", "1;2;3;4;5;6;7"]


def payload(rng, semi: bool = False) -> str:
    if semi and rng.random() < 0.3:
        return rng.choice(PAYLOADS_SEMI)
    r = rng.random()
    if r < 0.7:
        return rng.choice(PAYLOADS)
    # now and then longer than the 25 bytes a real MySensors radio frame carries: the serial protocol has no such limit
    n = rng.randint(1, 12) if r < 0.93 else rng.randint(26, 70)
    alphabet = "abcXYZ019 .,:-_/ÅÄö€"
    s = "".join(rng.choice(alphabet) for _ in range(n)).rstrip()
    return s


def wake_line(proto: str, node: int, hb: int = 1) -> str:
    return f"{node};255;3;0;32;\n" if proto == "2.2" else f"{node};255;3;0;22;{hb}\n"


def short_history(i: int, alphabet: list, maxlen: int):
    """i-th history (length 1..maxlen, lexicographic) over alphabet, or None."""
    k = len(alphabet)
    n = i
    for length in range(1, maxlen + 1):
        count = k ** length
        if n < count:
            out = []
            for _ in range(length):
                out.append(alphabet[n % k])
                n //= k
            return list(reversed(out))
        n -= count
    return None


def short_history_count(k: int, maxlen: int) -> int:
    return sum(k ** l for l in range(1, maxlen + 1))


def link_faults(rng, lines: list, drop=0.0, dup=0.0, swap=0.0, counts=None) -> list:
    """Classical network faults applied to a line sequence: loss, duplication, reordering."""
    out = []
    for ln in lines:
        r = rng.random()
        if r < drop:
            if counts is not None:
                counts["drop"] = counts.get("drop", 0) + 1
            continue
        out.append(ln)
        if rng.random() < dup:
            if counts is not None:
                counts["dup"] = counts.get("dup", 0) + 1
            # the duplicate arrives now or a few lines later
            out.append(ln) if rng.random() < 0.5 else out.insert(max(0, len(out) - rng.randint(0, 3)), ln)
    i = 0
    while i + 1 < len(out):
        if rng.random() < swap:
            out[i], out[i + 1] = out[i + 1], out[i]
            if counts is not None:
                counts["swap"] = counts.get("swap", 0) + 1
            i += 2
        else:
            i += 1
    return out


def node_script(rng, proto: str, n: int, children: list[int], types: list[int], length: int,
                semi: bool = False) -> list[str]:
    """Life of one simulated node: presentation, children, values, reports, reboot."""
    is2x = proto in PROTOS_2X
    out = [f"{n};255;0;0;{rng.choice([17, 18])};{proto}\n"]
    presented = []
    for _ in range(length):
        r = rng.random()
        if r < 0.18 or not presented:
            c = rng.choice(children)
            presented.append(c)
            out.append(f"{n};{c};0;0;{rng.choice([0, 3, 6, 23, 38])};{payload(rng)}\n")
        elif r < 0.55:
            c = rng.choice(children if rng.random() < 0.15 else presented)
            out.append(f"{n};{c};1;{rng.choice([0, 0, 1])};{rng.choice(types)};{payload(rng, semi)}\n")
        elif r < 0.62:
            c = rng.choice(children if rng.random() < 0.15 else presented)
            out.append(f"{n};{c};2;0;{rng.choice(types)};\n")
        elif r < 0.70:
            out.append(f"{n};255;3;0;0;{rng.choice(['0', '100', '55', '7', '99', '33.2', '12.75'])}\n")
        elif r < 0.76:
            out.append(f"{n};255;3;0;11;{payload(rng)}\n")
        elif r < 0.82:
            out.append(f"{n};255;3;0;12;{rng.choice(['1.0', '2.3.1', '', 'β'])}\n")
        elif r < 0.90 and is2x:
            out.append(f"{n};255;3;0;22;{rng.choice([0, 1, 5, 1234567])}\n")
        elif r < 0.93 and proto == "2.2":
            out.append(f"{n};255;3;0;32;{rng.choice(['', '500'])}\n")
        elif r < 0.97:
            out.append(f"{n};255;0;0;{rng.choice([17, 18])};{proto}\n")  # reboot: re-presentation
            presented = []
        else:
            out.append(f"{n};255;3;0;{rng.choice([5, 7, 8, 9, 10, 13])};{payload(rng)}\n")
    return out


def merge(rng, scripts: list[list[str]]) -> list[str]:
    """Random interleaving preserving each script's own order (several nodes on one link)."""
    idx = [0] * len(scripts)
    out = []
    live = [i for i, s in enumerate(scripts) if s]
    while live:
        i = rng.choice(live)
        out.append(scripts[i][idx[i]])
        idx[i] += 1
        if idx[i] >= len(scripts[i]):
            live.remove(i)
    return out


# ---------------------------------------------------------------------------
# hostile / lossy link: operators on single lines (C02 / C03)
# ---------------------------------------------------------------------------
FIELD_VALUES = {
    "valid": {0: ["0", "1", "9", "10", "99", "100", "254", "255"], 1: ["0", "1", "7", "254", "255"],
              2: ["0", "1", "2", "3", "4"], 3: ["0", "1"], 4: ["0", "2", "3", "4", "19", "22", "47", "255", "1000"]},
    "boundary": {0: ["256", "-1", "254", "255"], 1: ["256", "-1", "255", "254"], 2: ["5", "-1", "4"],
                 3: ["2", "-1", "1"], 4: ["-1", "256", "65536", "-2147483649"]},
}
ODD_INTS = [" 1", "1 ", "\t1", "+1", "1_0", "007", "-0", "１", "٣", "00", "+0"]
BAD_INTS = ["", "abc", "1a", "1.0", "1e3", "0x10", "1.5", "--1", "1;", "None", "true", "١٢x", "½", " ",
            "²", "³", "¹²", "①", "⁴", "+-6", "-+1", "٣²", "1²", "Ⅷ", "六"]
HUGE_INTS = ["1" + "0" * 30, "9" * 400, "7" * 5000, "-" + "3" * 4500]
ABSURD = {
    0: ["abc", "", "nan", "inf", "-inf", "1e999", "-3", "150", "12.5", "0x10", "٥", "1e2", " 7", "1_0", "99.5", "101",
        "9" * 5000, "1" + "0" * 400, "0." + "3" * 5000, "-0", "١٠٠"],
    22: ["xyz", "", "1.5", "9" * 30, "-1", "1e3", "٣", " 4", "+5", "1_0", "0x1", "7" * 5000, "-" + "7" * 4500],
    2: ["garbage", "", "1..2", "2.2.0-beta", "v2.2", "2", ".", "2.x", "٢.٢", "1" * 5000, "2." + "9" * 4400,
        "9" * 4301 + ".0", "2.2." + "0" * 5000, "1e5", "-2.2", "2.2 ", " 2.2", "2.2\x00"],
    32: ["x", "500", ""],
}


def field_mutation(rng, parts: list[str]) -> tuple[list[str], str]:
    """Replace one numeric field by a value of some class. Returns (parts, tag)."""
    parts = list(parts)
    i = rng.randrange(min(5, len(parts)))
    cls = rng.choice(["boundary", "odd", "bad", "huge", "valid"])
    if cls == "boundary":
        parts[i] = rng.choice(FIELD_VALUES["boundary"][i])
    elif cls == "valid":
        parts[i] = rng.choice(FIELD_VALUES["valid"][i])
    elif cls == "odd":
        parts[i] = rng.choice(ODD_INTS)
    elif cls == "bad":
        parts[i] = rng.choice(BAD_INTS)
    else:
        parts[i] = rng.choice(HUGE_INTS)
    return parts, f"field{i}-{cls}"


def hostile(rng, line: str, nxt: str | None = None) -> tuple[str, str]:
    """Apply one link-fault operator to a well-formed line."""
    body = line.rstrip("\n")
    r = rng.random()
    if r < 0.25:
        k = rng.randint(0, len(body))
        return body[:k] + "\n", "truncated"
    if r < 0.35 and nxt is not None:
        return body + nxt, "merged"  # newline lost: two lines arrive as one
    if r < 0.65:
        parts, tag = field_mutation(rng, body.split(";"))
        return ";".join(parts) + "\n", tag
    if r < 0.75:
        parts = body.split(";")
        k = rng.randint(0, 8)
        parts = parts[:k] if k < len(parts) else parts + ["x"] * (k - len(parts))
        return ";".join(parts) + "\n", f"nfields-{min(k, 8)}"
    if r < 0.85:
        k = rng.randint(0, len(body))
        junk = rng.choice(["\x00", "\x7f", "�", ";", ";;", "\r", " ", "‮", "é", "\x1b[0m"])
        return body[:k] + junk + body[k:] + "\n", "inserted"
    if r < 0.93:
        return body + rng.choice(["", " ", "\r", "  \t", "\r\n"]) + rng.choice(["\n", ""]), "terminator"
    return rng.choice(["", "\n", ";", ";;;;;", ";;;;;\n", "invalid", "\x00\n", " \n", "255\n", "1;2\n",
                       "1;2;3\n", "1;2;3;0\n", "1;2;3;0;4\n"]), "literal"


def absurd_payload(rng, proto: str, n: int) -> tuple[str, str]:
    """A well-formed line whose payload the handler converts: battery, heartbeat, version, pre-sleep."""
    kinds = [0, 2]
    if proto in PROTOS_2X:
        kinds.append(22)
    if proto == "2.2":
        kinds.append(32)
    t = rng.choice(kinds)
    node = 0 if t == 2 else n
    return f"{node};255;3;0;{t};{rng.choice(ABSURD[t])}\n", f"absurd-type{t}"


def maybe_tcp(rng, scn: dict, share: float = 0.2) -> dict:
    """Run the scenario over the full stack (real TCPTransport + asyncio streams on the simulated byte link)
    instead of the injected line-level transport, when it injects no line-level write/read faults."""
    tapes = scn.get("tapes") or {}
    if any(k.startswith("w.fail") and any(tapes[k]) for k in tapes):
        return scn
    if any(op and op[0] == "readerr" for op in scn.get("ops", [])):
        return scn
    for op in scn.get("ops", []):
        # on a byte stream one read is one newline-terminated line: texts that hold no or several line
        # terminators only make sense on the injected line-level transport
        if op and op[0] == "line" and not (op[1].count("\n") == 1 and op[1].endswith("\n")):
            return scn
    if rng.random() < share:
        scn.setdefault("cfg", {})["link"] = "tcp"
        scn["tapes"] = dict(tapes, **{"link.chunk": [rng.choice([0, 0, 1, 3, 7]) for _ in range(rng.randint(0, 10))]})
        if rng.random() < 0.3:
            # the link stalls (peer not reading) for a while during some writes; it never breaks
            scn["tapes"]["link.stall"] = [rng.choice([0, 0, 0, 2, 15, 40]) for _ in range(rng.randint(1, 8))]
    return scn

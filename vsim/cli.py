"""Command line entry: ./check <ID> [--tier quick|thorough] [--replay file]."""

import argparse
import os
import sys

VERIF = os.path.dirname(os.path.dirname(os.path.abspath(__file__)))
if VERIF not in sys.path:
    sys.path.insert(0, VERIF)


def main() -> int:
    ap = argparse.ArgumentParser()
    ap.add_argument("prop")
    ap.add_argument("--tier", default=os.environ.get("VERIF_TIER", "quick"), choices=["quick", "thorough"])
    ap.add_argument("--replay")
    ap.add_argument("--seed", type=int, default=int(os.environ.get("VERIF_SEED", "0") or 0))
    args = ap.parse_args()
    from vsim import runner

    pid = args.prop.upper()
    if args.replay:
        return runner.replay(pid, args.replay)
    return runner.run_batch(pid, args.tier, args.seed)


if __name__ == "__main__":
    try:
        code = main()
    except SystemExit:
        raise
    except BaseException:  # noqa: BLE001
        import traceback

        traceback.print_exc()
        print("HARNESS-ERROR: uncaught exception in the check itself", file=sys.stderr)
        code = 2
    sys.stdout.flush()
    sys.exit(code)

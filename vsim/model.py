"""Reference model of the aiomysensors controller (checker style).

Written from the property statements in properties.jsonl and the MySensors
serial API, not by importing the repository's enums/schemas.  The model is a
*checker*: it is given what the implementation was observed to do in one step
(outcome, writes, public registry snapshot, public version) and returns the
list of discrepancies, each tagged with an *aspect* so that every property
reports only what it states.  Where the statement leaves a choice (which free
id to hand out, release order, lexically unusual integers, absurd payloads) the
model accepts every allowed outcome and adopts the implementation's choice
(narrow re-synchronisation, counted in ``relaxations``).
"""

from __future__ import annotations

import copy
import re
from collections import Counter

ORDER = ["1.4", "1.5", "2.0", "2.1", "2.2"]
INTERNAL_MAX = {"1.4": 14, "1.5": 17, "2.0": 28, "2.1": 28, "2.2": 33}
STREAM_MAX = 5
LIB_ERRORS = {
    "AIOMySensorsError", "MissingNodeError", "MissingChildError", "TooManyNodesError",
    "InvalidMessageError", "UnsupportedMessageError", "PersistenceError",
    "PersistenceReadError", "PersistenceWriteError", "TransportError",
    "TransportReadError", "TransportFailedError",
}
TRANSPORT_ERRORS = {"TransportError", "TransportReadError", "TransportFailedError"}

CANON_INT = re.compile(r"(0|-?[1-9][0-9]*)\Z")
STRICT_VERSION = re.compile(r"([0-9]{1,6})\.([0-9]{1,6})(\.[0-9]{1,6})?(\.[0-9]{1,6})?\Z")
NUM_PREFIX = re.compile(r"([0-9]{1,6})\.([0-9]{1,6})")


# --------------------------------------------------------------------------
# wire codec (C01/C02)
# --------------------------------------------------------------------------
def encode(fields) -> str:
    n, c, cmd, ack, t, p = fields
    return f"{n};{c};{cmd};{ack};{t};{p}\n"


def _classify_int(text: str):
    """-> ("canon", v) | ("odd", v) | ("bad", None) | ("huge", None)"""
    if CANON_INT.match(text) and len(text) < 4000:
        return "canon", int(text)
    if len(text) >= 4000:
        return "huge", None
    try:
        v = int(text)
    except ValueError:
        return "bad", None
    return "odd", v


def classify_line(line: str):
    """Classify a received line per C02.

    Returns (verdict, fields) with verdict in {"accept", "reject", "either"};
    fields = (n, c, cmd, ack, t, payload) when it may be accepted, else None.
    """
    body = line.rstrip()
    parts = body.split(";")
    if len(parts) < 6:
        return "reject", None
    nums = parts[:5]
    payload = ";".join(parts[5:])
    vals = []
    odd = False
    for i, text in enumerate(nums):
        kind, v = _classify_int(text)
        if kind == "bad":
            return "reject", None
        if kind == "huge":
            # out of range for the four ranged fields; for the type field an
            # implementation may or may not cope with thousands of digits
            if i < 4:
                return "reject", None
            return "either", None
        if kind == "odd":
            odd = True
        vals.append(v)
    n, c, cmd, ack, t = vals
    if not (0 <= n <= 255 and 0 <= c <= 255 and 0 <= cmd <= 4 and ack in (0, 1)):
        return "reject", None
    if cmd in (3, 4) and c != 255 and not (cmd == 3 and t in (3, 4)):
        return "reject", None
    if c == 255 and cmd in (1, 2):
        return "reject", None
    fields = (n, c, cmd, ack, t, payload)
    return ("either" if odd else "accept"), fields


# --------------------------------------------------------------------------
# version selection (C05)
# --------------------------------------------------------------------------
def select_protocol(major: int, minor: int) -> str:
    best = "1.4"
    for v in ORDER:
        a, b = (int(x) for x in v.split("."))
        if (a, b) <= (major, minor):
            best = v
    return best


def version_shape(v) -> str:
    if v is None:
        return "none"
    comps = v.split(".")
    shape = f"{len(comps)}comp"
    if len(comps) >= 3 and all(c == "0" for c in comps[2:]):
        shape += "-zero-tail"
    return shape


def version_class(payload: str):
    """-> ("strict", proto) | ("prefix", proto) | ("garbage", None)"""
    m = STRICT_VERSION.match(payload)
    if m:
        return "strict", select_protocol(int(m.group(1)), int(m.group(2)))
    m = NUM_PREFIX.match(payload)
    if m:
        return "prefix", select_protocol(int(m.group(1)), int(m.group(2)))
    return "garbage", None


# --------------------------------------------------------------------------
# numbers in payloads
# --------------------------------------------------------------------------
NICE_BATTERY = re.compile(r"(100|[0-9]{1,2})(\.[0-9]{1,3})?\Z")


def battery_value(payload: str):
    """Exact expected battery level for 'nice' payloads, else None (loose)."""
    m = NICE_BATTERY.match(payload)
    if not m:
        return None
    whole = int(m.group(1))
    frac = m.group(2)
    if not frac:
        return whole
    f = int(frac[1:].ljust(3, "0"))
    if f == 500 or whole == 100 and f > 0:
        return None
    return whole + (1 if f > 500 else 0)


PLAIN_NONNEG = re.compile(r"(0|[1-9][0-9]{0,8})\Z")


class Obs:
    """What the implementation did in one step (public surface only)."""

    def __init__(self, kind, cls=None, attrs=None, fields=None, writes=None,
                 nodes=None, version=None, proto=None, bases=()):
        self.kind = kind  # "ok" | "err" | "hang" | "stop"
        self.cls = cls  # exception class name
        self.bases = bases  # names of all base classes of the exception
        self.attrs = attrs or {}
        self.fields = fields  # yielded message fields tuple
        self.writes = writes or []  # [(line, ok_bool)]
        self.nodes = nodes  # registry snapshot after the step
        self.version = version
        self.proto = proto

    @property
    def is_lib_error(self) -> bool:
        return self.kind == "err" and "AIOMySensorsError" in self.bases

    @property
    def is_transport_error(self) -> bool:
        return self.kind == "err" and "TransportError" in self.bases


def new_node(node_type, version):
    return {"type": node_type, "version": version, "sketch_name": "", "sketch_version": "",
            "battery": 0, "heartbeat": 0, "sleeping": False, "reboot": False, "children": {}}


def _fields_of_write(line: str):
    """Decode one of the controller's own writes (always canonical)."""
    if not line.endswith("\n") or line.count("\n") != 1:
        return None
    parts = line[:-1].split(";")
    if len(parts) < 6:
        return None
    try:
        n, c, cmd, ack, t = (int(x) for x in parts[:5])
    except ValueError:
        return None
    return (n, c, cmd, ack, t, ";".join(parts[5:]))


class Model:
    def __init__(self, metric: bool = True, version: str | None = None):
        self.metric = metric
        self.version = None  # reported version string as accepted
        self.proto = "1.4"
        self.nodes: dict[int, dict] = {}
        self.parked: dict[tuple[int, int, int], str] = {}  # key -> encoded line
        self.pres_outstanding: set[int] = set()
        self.stale_ok: set[tuple[int, int, int]] = set()  # parked before the node re-presented: release optional
        self.pres_maybe: set[int] = set()  # request-outstanding bit unspecified (node presented under 1.x rules)
        # ids whose response reached the transport in this process: "two requests never receive the same id", whatever
        # happened to the registry in between (kept apart from the registry on purpose)
        self.handed_out: set[int] = set()
        # C12 allows ANY message to be held for a sleeping destination and handed over at its next wake; C07 only says
        # that set commands are.  Lines of other commands whose send returned normally without a write are kept here
        # and their release at that node's wake is not taken for a reaction or a presentation request.
        self.held_other: dict[int, list[str]] = {}
        # C04 quantifies over histories of RECEIVED messages; whether a set command that the controller itself has
        # written also shows up as the child's stored value ("optimistic state") is not ruled on.  Values of set
        # commands written successfully since the last registry comparison: adopted if the registry shows them.
        self.optimistic: dict[tuple[int, int, int], str] = {}
        self.relaxations: Counter = Counter()
        self.local_epoch = None  # callable -> expected local-epoch int at "now"
        if version is not None:
            self.pin(version)

    # -- helpers ---------------------------------------------------------
    def pin(self, version: str) -> None:
        kind, proto = version_class(version)
        assert kind == "strict", version
        self.version = version
        self.proto = proto

    @property
    def is2x(self) -> bool:
        return self.proto in ("2.0", "2.1", "2.2")

    def snapshot(self) -> dict:
        out = {}
        for n, node in self.nodes.items():
            d = {k: v for k, v in node.items() if k not in ("children", "reboot")}
            d["children"] = {c: {"type": ch["type"], "desc": ch["desc"], "values": dict(ch["values"])}
                             for c, ch in node["children"].items()}
            out[n] = d
        return out

    def load_registry(self, snap: dict) -> None:
        """Adopt a registry (e.g. restored from persistence)."""
        self.nodes = {}
        for n, d in snap.items():
            node = new_node(d["type"], d["version"])
            for k in ("sketch_name", "sketch_version", "battery", "heartbeat", "sleeping"):
                node[k] = d[k]
            node["children"] = {c: {"type": ch["type"], "desc": ch["desc"], "values": dict(ch["values"])}
                                for c, ch in d["children"].items()}
            self.nodes[int(n)] = node

    def state_key(self):
        """Abstract state for coverage counting."""
        return (self.version is not None, self.proto, len(self.nodes),
                sum(1 for n in self.nodes.values() if n["sleeping"]),
                len(self.parked), len(self.pres_outstanding))

    # -- send (C07 / C12) ---------------------------------------------------
    def check_send(self, fields, buffer: bool, obs: Obs, strict_cmds=(1,)):
        """Check one Gateway.send call of an application. Returns discrepancies."""
        d = []
        n, c, cmd, ack, t, p = fields
        line = encode(fields)
        node = self.nodes.get(n)
        sleeping = bool(node and node["sleeping"])
        ok_writes = [w for w, ok in obs.writes if ok]
        if cmd in strict_cmds:
            if sleeping and buffer:
                if obs.kind != "ok":
                    d.append(("send", "park:raised", f"{obs.cls}"))
                if obs.writes:
                    d.append(("send", "park:written-at-once", repr(obs.writes)))
                self.parked[(n, c, t)] = line
                self.stale_ok.discard((n, c, t))
            else:
                if obs.kind == "ok":
                    if ok_writes != [line]:
                        d.append(("send", "immediate:wrong-write", f"want {line!r} got {obs.writes!r}"))
                    else:
                        self.optimistic[(n, c, t)] = p
                elif not obs.is_transport_error:
                    d.append(("send", "immediate:raised", f"{obs.cls}"))
        elif obs.kind == "ok" and not obs.writes and sleeping and buffer:
            self.held_other.setdefault(n, []).append(line)
            self.relaxations["held-non-set-command"] += 1
        return d

    # -- one received line ---------------------------------------------------
    def step(self, line: str, obs: Obs, write_fail_possible: bool = False):
        """Check one listen step. Returns list of (aspect, site, detail)."""
        d: list[tuple[str, str, str]] = []
        verdict, fields = classify_line(line)

        # ---------------- decode (C02) ----------------
        if verdict == "reject":
            if obs.kind == "ok":
                d.append(("decode", "accepted-malformed", repr(line)))
                self._resync_all(obs)
            elif obs.kind == "err" and obs.cls != "InvalidMessageError":
                d.append(("decode", f"reject-by:{obs.cls}", repr(line)))
            elif obs.kind not in ("err",):
                d.append(("decode", f"reject:{obs.kind}", repr(line)))
            if obs.writes:
                d.append(("writes.other", "write-on-invalid-line", repr(obs.writes)))
            self._check_registry(obs, d, "after-invalid-line")
            return d
        if verdict == "either":
            self.relaxations["decode-either"] += 1
            if obs.kind == "err" and obs.cls == "InvalidMessageError":
                if obs.writes:
                    d.append(("writes.other", "write-on-invalid-line", repr(obs.writes)))
                self._check_registry(obs, d, "after-invalid-line")
                return d
            if fields is None:
                # huge type number: anything library-ish goes
                if obs.kind == "err" and not obs.is_lib_error:
                    d.append(("decode", f"either-by:{obs.cls}", repr(line[:40])))
                self._resync_all(obs)
                return d
            # accepted: must decode to int() values; continue as accepted
        n, c, cmd, ack, t, p = fields
        exp_err = None  # (cls, attrs) or ("lib", None) or None
        exp_writes: list[tuple] = []  # reaction writes (n,c,cmd,t,payload)
        loose = None  # reason string: outcome/writes unchecked, narrow resync
        release_for = None  # node whose parked commands are released
        version_before = self.version
        made_version_known = False
        idreq = False

        def version_report(payload):
            nonlocal loose, made_version_known
            kind, proto = version_class(payload)
            if kind == "strict":
                self.version = payload
                self.proto = proto
                made_version_known = version_before is None
            else:
                loose = f"version-{kind}"

        # ---------------- dispatch ----------------
        if cmd == 0:
            if c == 255:
                self.nodes[n] = new_node(t, p)
                if n in self.pres_outstanding and not self.is2x:
                    # C10 speaks about protocol 2.0 or newer only: whether a presentation received while older rules
                    # are in force (gateway downgrade) re-arms the request is not specified
                    self.pres_maybe.add(n)
                    self.relaxations["presentation-under-1x-rules"] += 1
                self.pres_outstanding.discard(n)
                # (a command parked for the node before it presented itself again is still owed at its next wake:
                #  the statement makes no exception for a re-presentation)
                if n == 0:
                    version_report(p)
            elif n not in self.nodes:
                exp_err = ("MissingNodeError", {"node_id": n})
            else:
                self.nodes[n]["children"][c] = {"type": t, "desc": p, "values": {}}
        elif cmd in (1, 2):
            if n not in self.nodes:
                exp_err = ("MissingNodeError", {"node_id": n})
            elif c not in self.nodes[n]["children"]:
                exp_err = ("MissingChildError", {"child_id": c})
            elif cmd == 1:
                self.nodes[n]["children"][c]["values"][t] = p
                if self.nodes[n]["reboot"]:
                    exp_writes.append((n, 255, 3, 13, ""))
            else:
                val = self.nodes[n]["children"][c]["values"].get(t)
                opt = self.optimistic.get((n, c, t))
                if opt is not None and opt != val and any(
                        (ff := _fields_of_write(w_)) and (ff[0], ff[1], ff[2], ff[4], ff[5]) == (n, c, 1, t, opt)
                        for w_, _ok in obs.writes):
                    # the controller answers with the value it has written itself a moment ago (optimistic state,
                    # see self.optimistic): adopt it as the stored value
                    self.nodes[n]["children"][c]["values"][t] = val = opt
                    self.relaxations["optimistic-state"] += 1
                if val is not None:
                    exp_writes.append((n, c, 1, t, val))
        elif cmd == 3:
            if not (0 <= t <= INTERNAL_MAX[self.proto]):
                exp_err = ("UnsupportedMessageError", {})
            elif t == 0:
                if n not in self.nodes:
                    exp_err = ("MissingNodeError", {"node_id": n})
                else:
                    bv = battery_value(p)
                    if bv is None:
                        loose = "battery-absurd"
                    else:
                        self.nodes[n]["battery"] = bv
            elif t == 1:
                exp_writes.append((n, c, 3, 1, "<time>"))
            elif t == 2:
                if n == 0:
                    version_report(p)
                else:
                    loose = "version-from-nonzero-node"
            elif t == 3:
                idreq = True
            elif t == 6:
                exp_writes.append((n, c, 3, 6, "M" if self.metric else "I"))
            elif t in (11, 12):
                if n not in self.nodes:
                    exp_err = ("MissingNodeError", {"node_id": n})
                else:
                    self.nodes[n]["sketch_name" if t == 11 else "sketch_version"] = p
            elif t == 14:
                if self.is2x:
                    exp_writes.append((255, 255, 3, 20, ""))
            elif t == 21 and self.is2x:
                if n not in self.nodes:
                    exp_err = ("MissingNodeError", {"node_id": n})
            elif t == 22 and self.is2x:
                if n not in self.nodes:
                    exp_err = ("MissingNodeError", {"node_id": n})
                elif not PLAIN_NONNEG.match(p):
                    loose = "heartbeat-absurd"
                else:
                    self.nodes[n]["heartbeat"] = int(p)
                    if self.proto in ("2.0", "2.1"):
                        self.nodes[n]["sleeping"] = True
                        release_for = n
            elif t == 32 and self.proto == "2.2":
                if n not in self.nodes:
                    exp_err = ("MissingNodeError", {"node_id": n})
                else:
                    self.nodes[n]["sleeping"] = True
                    release_for = n
        elif cmd == 4:
            unknown = n not in self.nodes
            unsupported = not (0 <= t <= STREAM_MAX)
            if unknown and unsupported:
                exp_err = ("either-missing-unsupported", {"node_id": n})
            elif unknown:
                exp_err = ("MissingNodeError", {"node_id": n})
            elif unsupported:
                exp_err = ("UnsupportedMessageError", {})

        # ---------------- well-formed line rejected as invalid (C02) ----------------
        # (a handler may legitimately report an absurd payload - loose steps - as an invalid message)
        if obs.kind == "err" and obs.cls == "InvalidMessageError" and verdict == "accept" and not loose:
            d.append(("decode", "rejected-wellformed", repr(line)))
            self._resync_all(obs)
            return d

        # ---------------- loose steps ----------------
        if loose:
            self.relaxations[loose] += 1
            if obs.kind == "err" and not obs.is_lib_error:
                d.append(("outcome", f"{loose}:non-library:{obs.cls}", repr(line)))
            elif obs.kind not in ("ok", "err"):
                d.append(("outcome", f"{loose}:{obs.kind}", repr(line)))
            if loose.startswith("version-"):
                self._check_loose_version(loose, p, obs, d, line)
            # an implementation that accepted the absurd payload may have released what was parked for the node:
            # adopt what it demonstrably wrote
            for wline, ok in obs.writes:
                if ok:
                    for key in [k for k, v in self.parked.items() if v == wline and k[0] == n]:
                        del self.parked[key]
                        self.stale_ok.discard(key)
                        self.relaxations["release-adopted-after-loose-step"] += 1
            self._resync_all(obs)
            return d

        # ---------------- id request (C11) ----------------
        if idreq:
            self._check_idreq(fields, obs, d)
            self._check_query(fields, obs, d, version_before, made_version_known)
            return d

        # ---------------- split the observed writes ----------------
        writes = list(obs.writes)
        decoded = [(_fields_of_write(w), ok, w) for w, ok in writes]
        for f, ok, w in decoded:
            if f is None:
                d.append(("writes.format", "not-one-line", repr(w)))
        decoded = [(f, ok, w) for f, ok, w in decoded if f is not None]

        other_release_failed = False
        if release_for is not None and self.held_other.get(release_for):
            held = self.held_other[release_for]
            kept = []
            for f, ok, w in decoded:
                if w in held:
                    if ok:
                        held.remove(w)
                    else:
                        other_release_failed = True
                else:
                    kept.append((f, ok, w))
            decoded = kept
        query = [x for x in decoded if x[0][:3] == (0, 255, 3) and x[0][4] == 2 and x[0][5] == ""]
        pres = [x for x in decoded if x[0][1] == 255 and x[0][2] == 3 and x[0][4] == 19]
        rest = [x for x in decoded if x not in query and x not in pres]

        # ---------------- release of parked commands (C07/C08) ----------------
        release = []
        if release_for is not None:
            mine = {k: v for k, v in self.parked.items() if k[0] == release_for}
            pool = Counter(mine.values())
            remaining_rest = []
            for f, ok, w in rest:
                if pool[w] > 0 and f[2] == 1:
                    pool[w] -= 1
                    release.append((f, ok, w))
                else:
                    remaining_rest.append((f, ok, w))
            rest = remaining_rest
            failed = [x for x in release if not x[1]]
            okd = [x for x in release if x[1]]
            for f, ok, w in okd:
                key = (f[0], f[1], f[4])
                self.optimistic[key] = f[5]
                if self.parked.get(key) == w:
                    del self.parked[key]
                    self.stale_ok.discard(key)
            left = [k for k in self.parked if k[0] == release_for]
            if not failed:
                for k in [k for k in left if k in self.stale_ok]:
                    # parked before the node re-presented: the statement does not rule on it
                    del self.parked[k]
                    self.stale_ok.discard(k)
                    self.relaxations["stale-parked-optional"] += 1
                left = [k for k in self.parked if k[0] == release_for]
            if failed:
                if release and release[-1][1]:
                    d.append(("writes.release", "write-after-failed-write", repr([w for _, _, w in release])))
                if not obs.is_transport_error:
                    d.append(("writes.release", "failure-not-reported", f"outcome={obs.kind}:{obs.cls}"))
                # entries whose write failed stay parked (checked at later wakes)
                exp_err = ("transport", {})
            elif left and not any(not ok for _, ok, _ in decoded):
                d.append(("writes.release", "parked-not-released", repr(sorted(left))))
                for k in left:  # adopt: they stay parked in the model as well
                    pass
        else:
            # no wake: nothing parked may be written
            parked_lines = Counter(self.parked.values())
            for f, ok, w in list(rest):
                if parked_lines[w] > 0 and (f[0], f[1], f[4]) in self.parked and f[2] == 1 \
                        and (f[0], f[1], f[2], f[4], f[5]) not in exp_writes:
                    d.append(("writes.release", "released-without-wake", repr(w)))
                    rest.remove((f, ok, w))

        # ---------------- reactions (C06) ----------------
        got = [(f[0], f[1], f[2], f[4], f[5]) for f, ok, w in rest]
        want = list(exp_writes)
        if len(want) == 1 and want[0][4] == "<time>":
            if len(got) == 1 and got[0][:4] == want[0][:4]:
                exp_t = self.local_epoch() if self.local_epoch else None
                if exp_t is not None and got[0][4] != str(exp_t):
                    d.append(("writes.reaction", "time-payload", f"want {exp_t} got {got[0][4]!r}"))
            else:
                d.append(("writes.reaction", f"cmd{cmd}-type{t}:wrong-reaction", f"want {want} got {got}"))
        elif got != want:
            kind = "missing" if len(got) < len(want) else "unexpected" if len(got) > len(want) else "wrong"
            d.append(("writes.reaction", f"cmd{cmd}-type{t if cmd == 3 else 'x'}:{kind}-reaction",
                      f"want {want} got {got}"))
        if any(not ok for f, ok, w in rest) or other_release_failed:
            exp_err = ("transport", {})

        # ---------------- presentation request (C10) ----------------
        missing = exp_err is not None and exp_err[0] in ("MissingNodeError", "MissingChildError",
                                                         "either-missing-unsupported")
        if missing and self.is2x and exp_err[0] != "either-missing-unsupported" and n in self.pres_maybe:
            self.pres_maybe.discard(n)
            good = [x for x in pres if x[0][0] == n and x[0][5] == ""]
            if len(pres) > 1 or len(good) != len(pres):
                d.append(("writes.pres", "request-duplicated", f"node {n}: {[w for _, _, w in pres]}"))
            if not pres or pres[0][1]:
                self.pres_outstanding.add(n)  # either it was still outstanding, or it was just requested
            else:
                exp_err = ("transport", {})
        elif missing and self.is2x and exp_err[0] != "either-missing-unsupported":
            if n in self.pres_outstanding:
                if pres:
                    d.append(("writes.pres", "repeated-request", repr([w for _, _, w in pres])))
            else:
                good = [x for x in pres if x[0][0] == n and x[0][5] == ""]
                if len(pres) != 1 or len(good) != 1:
                    d.append(("writes.pres", "request-missing-or-wrong" if len(pres) <= 1 else "request-duplicated",
                              f"node {n}: {[w for _, _, w in pres]}"))
                if pres and pres[0][1]:
                    self.pres_outstanding.add(n)
                elif pres and not pres[0][1]:
                    exp_err = ("transport", {})
        elif missing and self.is2x:
            # unknown node + unsupported stream type: request allowed iff Missing* was chosen
            if obs.cls in ("MissingNodeError",) and pres and pres[0][1]:
                self.pres_outstanding.add(n)
            if pres and not pres[0][1]:
                exp_err = ("transport", {})  # the request was attempted and its write failed
            self.relaxations["stream-either"] += 1
        elif pres:
            d.append(("writes.pres", "unexpected-request" if self.is2x else "request-under-1x",
                      repr([w for _, _, w in pres])))

        # ---------------- version query (C06) ----------------
        self._check_query(fields, obs, d, version_before, made_version_known, query=query)
        if any(not ok for _f, ok, _w in query):
            # the query goes out after the message was handled; when ITS write fails, that failure is what the caller
            # sees, whatever the handling itself had ended with (everything else of the step is still judged)
            exp_err = ("transport", {})
            self.relaxations["outcome-masked-by-failed-query"] += 1

        # ---------------- outcome (C03/C04) ----------------
        if exp_err is None:
            if obs.kind != "ok":
                d.append(("outcome", f"cmd{cmd}:unexpected-{obs.kind}:{obs.cls}", repr(line)))
            elif tuple(obs.fields) != (n, c, cmd, ack, t, p):
                d.append(("yield", "fields-differ", f"want {(n, c, cmd, ack, t, p)} got {obs.fields}"))
        elif exp_err[0] == "transport":
            if not obs.is_transport_error:
                d.append(("outcome", "write-failure-not-reported", f"{obs.kind}:{obs.cls}"))
        elif exp_err[0] == "either-missing-unsupported":
            if not (obs.kind == "err" and obs.cls in ("MissingNodeError", "UnsupportedMessageError")):
                d.append(("outcome", "stream:wrong-error", f"{obs.kind}:{obs.cls}"))
        else:
            cls, attrs = exp_err
            if obs.kind != "err":
                d.append(("outcome", f"{cls}:not-raised", f"{obs.kind} for {line!r}"))
            elif obs.cls != cls:
                d.append(("outcome", f"{cls}:raised-{obs.cls}", repr(line)))
            else:
                for k, v in attrs.items():
                    if obs.attrs.get(k) != v:
                        d.append(("outcome", f"{cls}:{k}-wrong", f"want {v} got {obs.attrs.get(k)!r}"))

        # ---------------- version state (C05) ----------------
        if obs.version != self.version:
            d.append(("version", "reported-version-differs", f"want {self.version!r} got {obs.version!r}"))
        if obs.proto != self.proto:
            d.append(("version", f"rules-differ:{version_shape(self.version)}",
                      f"reported {self.version!r}: want rules {self.proto} got {obs.proto}"))

        # ---------------- registry (C04) ----------------
        self._check_registry(obs, d, f"cmd{cmd}")
        return d

    # ------------------------------------------------------------------
    def _check_query(self, fields, obs, d, version_before, made_known, query=None):
        n, c, cmd, ack, t, p = fields
        if query is None:
            query = [(f, ok, w) for f, ok, w in ((_fields_of_write(w), ok, w) for w, ok in obs.writes)
                     if f and f[:3] == (0, 255, 3) and f[4] == 2 and f[5] == ""]
        due = version_before is None and not made_known and not (cmd == 3 and t in (9, 14))
        if due and len(query) != 1:
            d.append(("writes.query", "query-missing" if not query else "query-repeated",
                      f"{len(query)} queries after {fields}"))
        if not due and query:
            d.append(("writes.query", "query-unexpected", f"after {fields} version={version_before!r}"))

    def _check_loose_version(self, loose, payload, obs, d, line):
        """A report that is not of the form a.b[.c[.d]].

        Rejected (the step raised) => the (version, rules) pair must be what it was before.
        Accepted (the step yielded) => unchanged, or version == payload with rules matching the
        numeric a.b prefix when there is one (no prefix: any supported rules, the reading is the
        implementation's business).
        """
        before = (self.version, self.proto)
        after = (obs.version, obs.proto)
        if after == before or loose == "version-from-nonzero-node":
            return
        kind, proto = version_class(payload)
        if obs.kind != "ok":
            d.append(("version", f"changed-by-rejected-{kind}-report",
                      f"before {before} after {after} payload {payload!r} outcome {obs.cls}"))
            return
        if obs.version == payload and obs.proto in ORDER and (kind != "prefix" or obs.proto == proto):
            return
        d.append(("version", f"inconsistent-after-{kind}-report",
                  f"before {before} after {after} payload {payload!r}"))

    def _check_idreq(self, fields, obs, d):
        n, c, cmd, ack, t, p = fields
        before = set(self.nodes)
        after = set(obs.nodes) if obs.nodes is not None else set()
        decoded = [(_fields_of_write(w), ok, w) for w, ok in obs.writes]
        resp = [x for x in decoded if x[0] and x[0][2] == 3 and x[0][4] == 4]
        other = [x for x in decoded if x not in resp and not (x[0] and x[0][:3] == (0, 255, 3) and x[0][4] == 2)]
        if other:
            d.append(("writes.reaction", "idreq:unexpected-write", repr([w for _, _, w in other])))
        if obs.kind == "err" and obs.cls == "TooManyNodesError":
            if resp:
                d.append(("idalloc", "too-many:response-written", repr(resp)))
            if after != before:
                d.append(("idalloc", "too-many:registry-changed", f"{sorted(after ^ before)}"))
            if not before or max(before) < 254:
                d.append(("idalloc", "too-many:id-above-highest-free", f"max={max(before) if before else None}"))
            self._check_registry(obs, d, "idreq")
            return
        if obs.kind != "ok" and not (obs.is_transport_error and any(not ok for _, ok, _ in decoded)):
            d.append(("outcome", f"idreq:unexpected-{obs.kind}:{obs.cls}", ""))
            self._resync_all(obs)
            return
        query_failed = any(not ok for f, ok, _ in decoded if f and f[:3] == (0, 255, 3) and f[4] == 2)
        if obs.kind != "ok" and query_failed and not resp:
            # the version query that follows the handling failed and masks what the handling ended with; no response
            # and an untouched registry is what a too-many-nodes refusal looks like from outside
            self.relaxations["outcome-masked-by-failed-query"] += 1
            if after != before:
                d.append(("idalloc", "too-many:registry-changed", f"{sorted(after ^ before)}"))
            if not before or max(before) < 254:
                d.append(("idalloc", "too-many:id-above-highest-free", f"max={max(before) if before else None}"))
            self._check_registry(obs, d, "idreq")
            return
        if len(resp) != 1:
            d.append(("idalloc", "response-count", f"{len(resp)} responses"))
            self._resync_all(obs)
            return
        f = resp[0][0]
        if (f[0], f[1]) != (n, c):
            d.append(("idalloc", "response-misaddressed", f"request {(n, c)} response {(f[0], f[1])}"))
        try:
            new_id = int(f[5])
        except ValueError:
            d.append(("idalloc", "response-payload-not-int", repr(f[5])))
            self._resync_all(obs)
            return
        if not (1 <= new_id <= 254):
            d.append(("idalloc", "id-out-of-range", str(new_id)))
        if new_id in before:
            d.append(("idalloc", "id-not-fresh", f"{new_id} in registry {sorted(before)[:12]}"))
        elif new_id in self.handed_out:
            d.append(("idalloc", "id-handed-out-twice", f"{new_id} was already the answer to an earlier request; "
                                                         f"registry now {sorted(before)[:12]}"))
        if resp[0][1]:
            self.handed_out.add(new_id)
        if obs.attrs.get("registered_at_write") is False:
            d.append(("idalloc", "registered-after-write", str(new_id)))
        if after - before != {new_id}:
            d.append(("idalloc", "registry-delta", f"added {sorted(after - before)} handed out {new_id}"))
        if obs.kind == "ok" and tuple(obs.fields) != fields:
            d.append(("yield", "fields-differ", f"want {fields} got {obs.fields}"))
        # adopt the placeholder exactly as created (its defaults are unspecified)
        if obs.nodes is not None and new_id in obs.nodes and new_id not in before:
            snap = obs.nodes[new_id]
            if snap["children"]:
                d.append(("idalloc", "placeholder-has-children", str(new_id)))
            node = new_node(snap["type"], snap["version"])
            for k in ("sketch_name", "sketch_version", "battery", "heartbeat", "sleeping"):
                node[k] = snap[k]
            self.nodes[new_id] = node
            self.relaxations["placeholder-adopted"] += 1
        self._check_registry(obs, d, "idreq")

    def _check_registry(self, obs, d, where):
        if obs.nodes is None:
            return
        for (n, c, t), p in self.optimistic.items():
            node = self.nodes.get(n)
            try:
                got = obs.nodes[n]["children"][c]["values"].get(t)
            except (KeyError, TypeError, AttributeError):
                got = None
            if node is not None and c in node["children"] and got == p and node["children"][c]["values"].get(t) != p:
                node["children"][c]["values"][t] = p
                self.relaxations["optimistic-state"] += 1
        self.optimistic.clear()
        want = self.snapshot()
        if obs.nodes != want:
            d.append(("registry", f"{where}:{_diff_site(want, obs.nodes)}", _diff_detail(want, obs.nodes)))
            self.load_registry_keep_flags(obs.nodes)

    def load_registry_keep_flags(self, snap):
        reboot = {n: node["reboot"] for n, node in self.nodes.items()}
        self.load_registry(copy.deepcopy(snap))
        for n, r in reboot.items():
            if n in self.nodes:
                self.nodes[n]["reboot"] = r

    def _resync_all(self, obs):
        if obs.nodes is not None:
            self.load_registry_keep_flags(obs.nodes)
        self.version = obs.version
        if obs.proto in ORDER:
            self.proto = obs.proto
        self.relaxations["resync"] += 1


def _diff_site(want, got) -> str:
    if set(want) != set(got):
        return "node-set"
    for n in sorted(want):
        a, b = want[n], got[n]
        for k in a:
            if k == "children":
                continue
            if a[k] != b.get(k):
                return f"node.{k}"
        if set(a["children"]) != set(b["children"]):
            return "child-set"
        for c in sorted(a["children"]):
            for k in ("type", "desc", "values"):
                if a["children"][c][k] != b["children"][c].get(k):
                    return f"child.{k}"
    return "other"


def _diff_detail(want, got) -> str:
    out = []
    for n in sorted(set(want) | set(got)):
        if want.get(n) != got.get(n):
            out.append(f"node {n}: want {want.get(n)} got {got.get(n)}")
    return "; ".join(out)[:600]

"""Persistence world: real aiomysensors.persistence on SimLoop + SimDisk."""

from __future__ import annotations

import json
from collections import Counter

from .core import EventLog, Tapes, use_repo, task_exc
from .fs import SimDisk, patched_fs
from .loop import SimCrash, new_loop

use_repo()
from aiomysensors.model.node import Child, Node  # noqa: E402
from aiomysensors.persistence import Persistence  # noqa: E402

PATH = "/sim/persistence.json"


class PWorld:
    def __init__(self, tapes=None, disk: SimDisk | None = None):
        self.loop = new_loop()
        self.tapes = Tapes(tapes)
        self.elog = EventLog()
        self.faults = Counter()
        self.disk = disk or SimDisk()
        self.disk.world = self
        self.loop.exec_latency = lambda: self.tapes.next("exec.lat", 0)
        self.loop.exec_cancel_skips = lambda: self.tapes.next("exec.cancel_skips", 0)
        self._fs = patched_fs(self.disk)
        self._fs.__enter__()

    def log(self, actor, kind, *args):
        return self.elog.add(self.loop.time(), actor, kind, *args)

    def run(self, coro, horizon: float = 100.0):
        """Run a coroutine to completion (or crash / hang). Returns (kind, value)."""
        t = self.loop.create_task(coro)
        self.loop.run_until_idle(horizon)
        if t.done() and not t.cancelled() and isinstance(task_exc(t), SimCrash):
            self.loop.crashed = True  # the process died in a synchronous file-system call on the loop thread
        if self.loop.crashed:
            return "crash", None
        if not t.done():
            t.cancel()
            self.loop.run_until_idle(0)
            return "hang", None
        if t.cancelled():
            return "cancelled", None
        if task_exc(t) is not None:
            return "err", task_exc(t)
        return "ok", t.result()

    def close(self):
        try:
            self.loop.shutdown()
        finally:
            self._fs.__exit__(None, None, None)


def build_nodes(snap: dict) -> dict:
    nodes = {}
    for key, d in snap.items():
        n = int(key)
        node = Node(n, d["type"], d["version"], sketch_name=d.get("sketch_name", ""),
                    sketch_version=d.get("sketch_version", ""), battery_level=d.get("battery", 0),
                    heartbeat=d.get("heartbeat", 0), sleeping=d.get("sleeping", False))
        for ck, c in d.get("children", {}).items():
            node.children[int(ck)] = Child(int(ck), c["type"], description=c.get("desc", ""),
                                           values={int(t): v for t, v in c.get("values", {}).items()})
        nodes[n] = node
    return nodes


def snapshot(nodes: dict) -> dict:
    out = {}
    for key, n in nodes.items():
        out[key] = {
            "type": n.node_type, "version": n.protocol_version, "sketch_name": n.sketch_name,
            "sketch_version": n.sketch_version, "battery": n.battery_level, "heartbeat": n.heartbeat,
            "sleeping": n.sleeping,
            "children": {ck: {"type": c.child_type, "desc": c.description, "values": dict(c.values)}
                         for ck, c in n.children.items()},
        }
        if n.node_id != key:
            out[key]["node_id_mismatch"] = n.node_id
    return out


def native_image(snap: dict) -> str:
    """Reference rendering of a registry in the native layout (independent of NodeSchema)."""
    data = {}
    for n, d in snap.items():
        data[str(n)] = {
            "node_id": int(n), "node_type": d["type"], "protocol_version": d["version"],
            "sketch_name": d["sketch_name"], "sketch_version": d["sketch_version"],
            "battery_level": d["battery"], "heartbeat": d["heartbeat"], "sleeping": d["sleeping"],
            "children": {str(c): {"child_id": int(c), "child_type": ch["type"], "description": ch["desc"],
                                  "values": {str(t): v for t, v in ch["values"].items()}}
                         for c, ch in d["children"].items()},
        }
    return json.dumps(data, sort_keys=True, indent=2)


def legacy_image(snap: dict, null_strings: bool = False) -> str:
    """The same registry rendered in the legacy pymysensors key names."""
    data = {}
    for n, d in snap.items():
        data[str(n)] = {
            "sensor_id": int(n), "type": d["type"], "protocol_version": d["version"],
            "sketch_name": None if (null_strings and d["sketch_name"] == "") else d["sketch_name"],
            "sketch_version": None if (null_strings and d["sketch_version"] == "") else d["sketch_version"],
            "battery_level": d["battery"], "heartbeat": d["heartbeat"],
            "children": {str(c): {"id": int(c), "type": ch["type"], "description": ch["desc"],
                                  "values": {str(t): v for t, v in ch["values"].items()}}
                         for c, ch in d["children"].items()},
        }
    return json.dumps(data, sort_keys=True, indent=2)

"""Batch runner: seeded scenario generation, parallel execution, shrinking,
replay files, known findings, evidence."""

from __future__ import annotations

import concurrent.futures as cf
import faulthandler
import importlib
import json
import multiprocessing
import os
import sys
import time
import traceback
from collections import Counter

from .core import RunResult, canonical_json, stable_hash

VERIF = os.path.dirname(os.path.dirname(os.path.abspath(__file__)))
EVIDENCE_DIR = os.path.join(VERIF, "evidence")
if os.environ.get("VERIF_EVIDENCE_DIR"):
    EVIDENCE_DIR = os.environ["VERIF_EVIDENCE_DIR"]  # self-tests keep their runs away from the committed evidence
elif os.path.realpath(os.environ.get("VERIF_REPO", "/repo")) != "/repo":
    # runs against a scratch copy (mutation / seeded self-tests) must not overwrite the committed evidence,
    # which describes runs against /repo itself
    EVIDENCE_DIR = os.path.join("/tmp", "verif-scratch-evidence")
REPLAY_DIR = os.path.join(VERIF, "replays")
KNOWN_FILE = os.path.join(VERIF, "known_findings.json")
WORKERS = int(os.environ.get("VERIF_WORKERS", "16"))


def load_prop(pid: str):
    return importlib.import_module(f"props.{pid.lower()}")


def load_known() -> list[dict]:
    try:
        with open(KNOWN_FILE) as f:
            return json.load(f).get("findings", [])
    except FileNotFoundError:
        return []


def known_match(sig, known) -> dict | None:
    for k in known:
        if k.get("status") == "known" and list(k.get("signature", [])) == list(sig):
            return k
    return None


# ---------------------------------------------------------------------------
def run_one(mod, scn) -> RunResult:
    return mod.run(scn)


def _worker(args):
    pid, tier, seed, indices, deadline = args
    faulthandler.dump_traceback_later(max(60.0, deadline - time.time() + 120), exit=True)
    mod = load_prop(pid)
    agg = {
        "n": 0, "probes": Counter(), "faults": Counter(), "relax": Counter(),
        "digests": set(), "states": set(), "nontrivial": set(), "vt": 0.0, "steps": 0,
        "ops": 0, "violations": [], "errors": [], "idx_digest": {}, "samples": [],
    }
    for i in indices:
        if time.time() > deadline:
            break
        try:
            scn = mod.gen(seed, i, tier)
            res = run_one(mod, scn)
        except Exception:  # noqa: BLE001
            agg["errors"].append({"index": i, "trace": traceback.format_exc()[-3000:]})
            if len(agg["errors"]) > 3:
                break
            continue
        agg["n"] += 1
        agg["probes"].update(res.probes)
        agg["faults"].update(res.faults)
        agg["relax"].update(res.relaxations)
        agg["digests"].add(res.digest[:16])
        agg["states"].update(res.states)
        if res.nontrivial_key is not None:
            agg["nontrivial"].add(res.nontrivial_key if isinstance(res.nontrivial_key, str)
                                  else stable_hash(res.nontrivial_key))
        agg["vt"] += res.vt
        agg["steps"] += res.steps
        agg["ops"] += res.ops
        if len(agg["idx_digest"]) < 8:
            agg["idx_digest"][i] = res.digest
        if len(agg["samples"]) < 1 and res.nontrivial_key is not None:
            agg["samples"].append(scn)
        if res.violations:
            seen = {tuple(v["signature"]) for v in agg["violations"]}
            for sig in res.signatures():
                if sig not in seen and len(agg["violations"]) < 40:
                    det = next(v.detail for v in res.violations if v.signature == sig)
                    agg["violations"].append({"signature": list(sig), "detail": det[:800],
                                              "index": i, "scenario": scn})
    faulthandler.cancel_dump_traceback_later()
    agg["states"] = set(stable_hash(s) if not isinstance(s, str) else s for s in agg["states"])
    return agg


# ---------------------------------------------------------------------------
def shrink(mod, scn, sig, max_runs=1500):
    """Generic minimiser over the scenario's lists and numbers.

    Keeps a candidate iff the same violation signature persists. The executor
    holds no PRNG, so removing an element cannot shift anybody else's draws.
    """
    runs = 0

    def bad(c) -> bool:
        nonlocal runs
        runs += 1
        try:
            if hasattr(mod, "valid") and not mod.valid(c):
                return False
            return tuple(sig) in [tuple(s) for s in run_one(mod, c).signatures()]
        except Exception:  # noqa: BLE001
            return False

    def lists_in(obj, path=()):
        if isinstance(obj, dict):
            for k in sorted(obj):
                yield from lists_in(obj[k], path + (k,))
        elif isinstance(obj, list):
            shrinkable = getattr(mod, "SHRINK_LISTS", ("ops", "setup", "tapes", "actors", "lines", "sends"))
            if path and (path[0] in shrinkable):
                yield path
                for i, v in enumerate(obj):
                    if isinstance(v, (dict, list)) and path[0] in ("actors", "tapes"):
                        yield from lists_in(v, path + (i,))

    def get(obj, path):
        for p in path:
            obj = obj[p]
        return obj

    def with_(obj, path, val):
        obj = json.loads(json.dumps(obj))
        tgt = obj
        for p in path[:-1]:
            tgt = tgt[p]
        tgt[path[-1]] = val
        return obj

    cur = json.loads(json.dumps(scn))
    improved = True
    while improved and runs < max_runs:
        improved = False
        for path in list(lists_in(cur)):
            try:
                lst = get(cur, path)
            except (KeyError, IndexError):
                continue
            if not isinstance(lst, list) or not lst:
                continue
            chunk = max(1, len(lst) // 2)
            while chunk >= 1 and runs < max_runs:
                i = 0
                changed = False
                while i < len(lst) and runs < max_runs:
                    cand_list = lst[:i] + lst[i + chunk:]
                    cand = with_(cur, path, cand_list)
                    if bad(cand):
                        cur, lst, changed, improved = cand, cand_list, True, True
                    else:
                        i += chunk
                if chunk == 1:
                    break
                chunk = max(1, chunk // 2)
        # zero numeric tape entries
        tapes = cur.get("tapes")
        if isinstance(tapes, dict):
            for name in sorted(tapes):
                lst = tapes[name]
                if not isinstance(lst, list):
                    continue
                for i, v in enumerate(lst):
                    if isinstance(v, (int, float)) and v not in (0, 0.0) and runs < max_runs:
                        cand = with_(cur, ("tapes", name), lst[:i] + [0] + lst[i + 1:])
                        if bad(cand):
                            cur = cand
                            lst = cand["tapes"][name]
                            improved = True
        if hasattr(mod, "simplify"):
            for cand in mod.simplify(cur):
                if runs >= max_runs:
                    break
                if canonical_json(cand) != canonical_json(cur) and bad(cand):
                    cur = cand
                    improved = True
    return cur, runs


def write_replay(pid, seed, tier, index, scn, sig, digest, detail) -> str:
    os.makedirs(REPLAY_DIR, exist_ok=True)
    name = f"{pid}-{stable_hash(list(sig))[:8]}-s{seed}-i{index}.json"
    path = os.path.join(REPLAY_DIR, name)
    with open(path, "w") as f:
        json.dump({"property": pid, "seed": seed, "tier": tier, "index": index, "schema": 1,
                   "scenario": scn,
                   "expect": {"signature": list(sig), "digest": digest, "detail": detail}},
                  f, indent=1)  # key order is part of the scenario (e.g. registry insertion order)
    return path


def replay(pid: str, path: str) -> int:
    mod = load_prop(pid)
    with open(path) as f:
        rep = json.load(f)
    scn = rep["scenario"]
    want = tuple(rep["expect"]["signature"])
    res = run_one(mod, scn)
    res2 = run_one(mod, scn)
    sigs = [tuple(s) for s in res.signatures()]
    print(f"replay {path}: digest={res.digest[:16]} expected={rep['expect'].get('digest', '')[:16]} "
          f"signatures={sigs}")
    if res.digest != res2.digest:
        print("HARNESS-ERROR: replay is not deterministic")
        return 2
    if want in sigs:
        same = res.digest == rep["expect"].get("digest")
        print(f"reproduced signature {want} (event-log digest {'identical' if same else 'differs'})")
        for v in res.violations:
            if v.signature == want:
                print("  detail:", v.detail[:500])
                break
        print(f"VIOLATION property={pid} replay={path}")
        return 1
    print("not reproduced on this tree")
    return 0


# ---------------------------------------------------------------------------
def run_batch(pid: str, tier: str, seed: int) -> int:
    t0 = time.time()
    mod = load_prop(pid)
    total = max(1, int(mod.budget(tier) * float(os.environ.get("VERIF_BUDGET_SCALE", "1"))))
    wall = float(os.environ.get("VERIF_WALL", mod.wall(tier) if hasattr(mod, "wall") else
                                (90 if tier == "quick" else 900)))
    deadline = t0 + wall
    workers = max(1, min(WORKERS, total))
    slices = [list(range(w, total, workers)) for w in range(workers)]
    ctx = multiprocessing.get_context("fork")
    aggs = []
    harness_errors = []
    if workers == 1:
        aggs.append(_worker((pid, tier, seed, slices[0], deadline)))
    else:
        with cf.ProcessPoolExecutor(max_workers=workers, mp_context=ctx) as ex:
            futs = [ex.submit(_worker, (pid, tier, seed, s, deadline)) for s in slices]
            for fu in futs:
                try:
                    aggs.append(fu.result(timeout=wall + 300))
                except Exception as e:  # noqa: BLE001
                    harness_errors.append(f"worker died: {e!r}")
    n = sum(a["n"] for a in aggs)
    probes, faults, relax = Counter(), Counter(), Counter()
    digests, states, nontrivial = set(), set(), set()
    vt = steps = ops = 0
    violations, samples = [], []
    idx_digest = {}
    for a in aggs:
        probes.update(a["probes"]); faults.update(a["faults"]); relax.update(a["relax"])
        digests |= a["digests"]; states |= a["states"]; nontrivial |= a["nontrivial"]
        vt += a["vt"]; steps += a["steps"]; ops += a["ops"]
        violations += a["violations"]
        samples += a["samples"]
        idx_digest.update(a["idx_digest"])
        for e in a["errors"]:
            harness_errors.append(f"scenario {e['index']}: {e['trace']}")

    # determinism self-check: re-run a sample of this batch's scenarios here
    det_checked = det_bad = 0
    for i, dg in sorted(idx_digest.items())[:24]:
        try:
            r = run_one(mod, mod.gen(seed, i, tier))
        except Exception:  # noqa: BLE001
            harness_errors.append(f"determinism rerun {i}: {traceback.format_exc()[-1500:]}")
            continue
        det_checked += 1
        if r.digest != dg:
            det_bad += 1
            harness_errors.append(f"nondeterministic event log for scenario index {i}")

    # violations: dedupe by signature, minimise, write replay
    known = load_known()
    by_sig = {}
    for v in sorted(violations, key=lambda v: (len(canonical_json(v["scenario"])), v["index"])):
        by_sig.setdefault(tuple(v["signature"]), v)
    reported = []
    known_hit = []
    for sig, v in sorted(by_sig.items()):
        k = known_match(sig, known)
        if k is not None:
            known_hit.append((sig, k))
            continue
        if len(reported) >= 14:
            reported.append({"signature": list(sig), "replay": None, "detail": v["detail"]})
            continue
        small, sruns = shrink(mod, v["scenario"], sig)
        r1 = run_one(mod, small)
        r2 = run_one(mod, small)
        if tuple(sig) not in [tuple(s) for s in r1.signatures()] or r1.digest != r2.digest:
            harness_errors.append(f"violation {sig} did not reproduce deterministically after shrinking")
            continue
        det = next(x.detail for x in r1.violations if x.signature == tuple(sig))
        path = write_replay(pid, seed, tier, v["index"], small, sig, r1.digest, det)
        reported.append({"signature": list(sig), "replay": path, "detail": det, "shrink_runs": sruns})

    wall_s = time.time() - t0
    missing_probes = [p for p in getattr(mod, "REQUIRED_PROBES", []) if probes.get(p, 0) == 0]
    if missing_probes and n >= getattr(mod, "PROBE_MIN_RUNS", 200):
        # a stuck probe means the workload no longer reaches a branch we care about; on the developer's
        # self-test (VERIF_STRICT_PROBES=1) that is an error, in normal use it is reported, not fatal
        msg = f"required probes never hit: {missing_probes}"
        if os.environ.get("VERIF_STRICT_PROBES") == "1":
            harness_errors.append(msg)
        else:
            print(f"PROBE-WARNING: {msg}", file=sys.stderr)

    coverage = {
        "evaluations": n,
        "distinct_nontrivial": len(nontrivial),
        "rule": mod.RULE,
        "samples": samples[:3] if samples else [mod.gen(seed, 0, tier)],
        "distinct_event_log_digests": len(digests),
        "states": len(states),
        "operations_executed": ops,
        "loop_callbacks": steps,
        "simulated_seconds": round(vt, 3),
        "runs_per_hour": int(n / wall_s * 3600) if wall_s > 0 else 0,
        "workers": workers,
        "fault_kinds_fired": dict(sorted(faults.items())),
        "probes": dict(sorted(probes.items())),
        "relaxations_applied": dict(sorted(relax.items())),
        "determinism_selfcheck": {"rerun": det_checked, "mismatch": det_bad},
        "real_components": getattr(mod, "REAL", []),
        "stub_components": getattr(mod, "STUB", []),
        "known_findings_hit": [list(s) for s, _ in known_hit],
        "budget_requested": total,
        "required_probes_missing": missing_probes,
        "exhaustive": bool(getattr(mod, "EXHAUSTIVE", False)),
    }
    if hasattr(mod, "extra_coverage"):
        coverage.update(mod.extra_coverage(tier))
    evidence = {
        "property_id": pid, "tier": tier, "seed": seed, "level": mod.LEVEL,
        "coverage": coverage,
        "assumptions": getattr(mod, "ASSUMPTIONS", []),
        "wall_s": round(wall_s, 2),
        "violations": len([r for r in reported]),
    }
    os.makedirs(EVIDENCE_DIR, exist_ok=True)
    with open(os.path.join(EVIDENCE_DIR, f"{pid}.json"), "w") as f:
        json.dump(evidence, f, indent=1, sort_keys=True, default=str)

    print(f"[{pid}] tier={tier} seed={seed} runs={n}/{total} distinct_nontrivial={len(nontrivial)} "
          f"digests={len(digests)} states={len(states)} vt={vt:.0f}s wall={wall_s:.1f}s "
          f"faults={dict(faults)}")
    print(f"[{pid}] probes={dict(probes)}")
    for sig, k in known_hit:
        print(f"KNOWN-FINDING: property={pid} {k.get('what', ' / '.join(sig))}")
    for r in reported:
        print(f"[{pid}] violation signature={r['signature']} detail={r['detail'][:400]}")
        if r["replay"]:
            print(f"VIOLATION property={pid} replay={r['replay']}")
    if harness_errors:
        for e in harness_errors[:5]:
            print(f"HARNESS-ERROR: {e}", file=sys.stderr)
        if not reported:
            return 2
    if reported:
        return 1
    if n == 0:
        print("HARNESS-ERROR: nothing ran", file=sys.stderr)
        return 2
    return 0

"""Core pieces shared by every simulated world: tapes, event log, result."""

from __future__ import annotations

import hashlib
import json
import os
import sys
from collections import Counter


def repo_src() -> str:
    return os.path.join(os.environ.get("VERIF_REPO", "/repo"), "src")


def use_repo() -> None:
    """Import aiomysensors from the current working tree of the repo."""
    src = repo_src()
    if sys.path[0] != src:
        if src in sys.path:
            sys.path.remove(src)
        sys.path.insert(0, src)
    mod = sys.modules.get("aiomysensors")
    if mod is not None:
        path = getattr(mod, "__file__", "") or ""
        if not path.startswith(src):
            raise RuntimeError(f"aiomysensors already imported from {path}, want {src}")


class Tape:
    """An explicit list of decisions; returns a default when exhausted.

    The executor contains no PRNG: every latency / fault / chunk size is read
    from a tape that is part of the scenario (and hence of the replay file).
    """

    __slots__ = ("name", "items", "pos", "default", "used")

    def __init__(self, name: str, items, default):
        self.name = name
        self.items = list(items or [])
        self.pos = 0
        self.default = default
        self.used = 0

    def next(self):
        self.used += 1
        if self.pos < len(self.items):
            v = self.items[self.pos]
            self.pos += 1
            return v
        return self.default


class Tapes:
    def __init__(self, spec: dict | None, defaults: dict | None = None):
        self.spec = spec or {}
        self.defaults = defaults or {}
        self._tapes: dict[str, Tape] = {}

    def get(self, name: str, default=0) -> Tape:
        t = self._tapes.get(name)
        if t is None:
            t = Tape(name, self.spec.get(name), self.defaults.get(name, default))
            self._tapes[name] = t
        return t

    def next(self, name: str, default=0):
        return self.get(name, default).next()


class EventLog:
    """Global-sequence-numbered event log; logging draws nothing, reads no clock
    other than the virtual one it is given."""

    def __init__(self) -> None:
        self.events: list[tuple] = []

    def add(self, vt: float, actor: str, kind: str, *args) -> int:
        seq = len(self.events)
        self.events.append((seq, round(vt, 6), actor, kind) + tuple(args))
        return seq

    def digest(self) -> str:
        h = hashlib.sha256()
        for ev in self.events:
            h.update(repr(ev).encode("utf-8", "backslashreplace"))
            h.update(b"\n")
        return h.hexdigest()


class Violation:
    __slots__ = ("prop", "oracle", "site", "detail")

    def __init__(self, prop: str, oracle: str, site: str, detail: str = ""):
        self.prop = prop
        self.oracle = oracle
        self.site = site
        self.detail = detail

    @property
    def signature(self) -> tuple[str, str, str]:
        return (self.prop, self.oracle, self.site)

    def as_dict(self) -> dict:
        return {"signature": list(self.signature), "detail": self.detail}


class RunResult:
    def __init__(self) -> None:
        self.violations: list[Violation] = []
        self.digest = ""
        self.probes: Counter = Counter()
        self.faults: Counter = Counter()
        self.relaxations: Counter = Counter()
        self.states: set = set()
        self.vt = 0.0
        self.steps = 0
        self.ops = 0
        self.nontrivial_key = None  # hashable abstract of the run if non-trivial
        self.notes: list[str] = []

    def violate(self, prop: str, oracle: str, site: str, detail: str = "") -> None:
        self.violations.append(Violation(prop, oracle, site, detail))

    def signatures(self) -> list[tuple[str, str, str]]:
        seen = []
        for v in self.violations:
            if v.signature not in seen:
                seen.append(v.signature)
        return seen


def canonical_json(obj) -> str:
    return json.dumps(obj, sort_keys=True, ensure_ascii=True, separators=(",", ":"))


def stable_hash(obj) -> str:
    return hashlib.sha256(canonical_json(obj).encode()).hexdigest()[:16]


def task_exc(task):
    """Exception of a finished task. A task that ended *cancelled* although nobody in the harness cancelled it (a
    CancelledError leaked from the library into its caller's task) is reported as having raised CancelledError
    instead of blowing up the harness with Task.exception()'s own CancelledError."""
    import asyncio
    if task.cancelled():
        return asyncio.CancelledError()
    return task.exception()

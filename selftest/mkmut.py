"""Author mutants as (file, old, new) replacements; writes unified diffs to selftest/mutants/.

usage: /venv/bin/python selftest/mkmut.py      (regenerates all patches from MUTANTS below against /repo)
"""

import difflib
import os

REPO = "/repo"
OUT = os.path.join(os.path.dirname(os.path.abspath(__file__)), "mutants")
P14 = "src/aiomysensors/model/protocol/protocol_14.py"
P20 = "src/aiomysensors/model/protocol/protocol_20.py"
P22 = "src/aiomysensors/model/protocol/protocol_22.py"
PINIT = "src/aiomysensors/model/protocol/__init__.py"
GW = "src/aiomysensors/gateway.py"
MSG = "src/aiomysensors/model/message.py"
NODE = "src/aiomysensors/model/node.py"
PERS = "src/aiomysensors/persistence.py"
TR = "src/aiomysensors/transport/__init__.py"
MQ = "src/aiomysensors/transport/mqtt.py"

# name, props, [(file, old, new), ...]
MUTANTS = [
    ("c04_add_child_keeps_values", "C04", [(NODE,
        "        self.children[child_id] = Child(\n            child_id,\n            child_type,\n            description=description,\n            values=values,\n        )",
        "        old = self.children.get(child_id)\n        self.children[child_id] = Child(\n            child_id,\n            child_type,\n            description=description,\n            values=values or (old.values if old else None),\n        )")]),
    ("c04_node_presentation_keeps_children", "C04", [(P14,
        "            node = Node(message.node_id, message.message_type, message.payload)\n",
        "            node = Node(message.node_id, message.message_type, message.payload)\n            if message.node_id in gateway.nodes:\n                node.children = gateway.nodes[message.node_id].children\n")]),
    ("c04_missing_node_error_wrong_id", "C04", [(P14,
        "        if message.node_id not in gateway.nodes:\n            raise MissingNodeError(message.node_id)\n\n        gateway.nodes[message.node_id].sketch_name",
        "        if message.node_id not in gateway.nodes:\n            raise MissingNodeError(message.child_id)\n\n        gateway.nodes[message.node_id].sketch_name")]),
    ("c06_config_reply_buffered", "C06 C12", [(P14,
        "            payload=\"M\" if gateway.config.metric else \"I\",\n        )\n        await gateway.send(config_message, message_buffer=False)",
        "            payload=\"M\" if gateway.config.metric else \"I\",\n        )\n        await gateway.send(config_message)")]),
    ("c06_time_gmtime", "C06", [(P14, "calendar.timegm(time.localtime())", "calendar.timegm(time.gmtime())")]),
    ("c06_query_after_log", "C06", [(P14,
        "                    Internal.I_LOG_MESSAGE,\n                    Internal.I_GATEWAY_READY,",
        "                    Internal.I_GATEWAY_READY,")]),
    ("c06_req_reply_to_child0", "C06", [(P14,
        "                node_id=message.node_id,\n                child_id=message.child_id,\n                command=Command.set,",
        "                node_id=message.node_id,\n                child_id=message.child_id if message.child_id != 7 else 0,\n                command=Command.set,")]),
    ("c06_discover_also_15", "C06 C19", [("src/aiomysensors/model/protocol/protocol_15.py",
        "class IncomingMessageHandler(IncomingMessageHandler14):\n    \"\"\"Represent a message handler.\"\"\"\n",
        "class IncomingMessageHandler(IncomingMessageHandler14):\n    \"\"\"Represent a message handler.\"\"\"\n\n    @classmethod\n    async def handle_i_gateway_ready(cls, gateway, message, message_buffer):  # noqa: ANN001, ANN206, ARG003, D102\n        from aiomysensors.model.message import Message  # noqa: PLC0415\n\n        await gateway.send(Message(255, 255, 3, 0, 20), message_buffer=False)\n        return message\n")]),
    ("c07_flush_everybody", "C07", [(P20,
        "            if buffer_message.node_id == message.node_id\n", "            if buffer_message.node_id >= 0\n")]),
    ("c07_keep_oldest_value", "C07", [(P14,
        "        if message_buffer and node and node.sleeping:\n            message_buffer.set_messages[\n                (message.node_id, message.child_id, message.message_type)\n            ] = message\n",
        "        if message_buffer and node and node.sleeping:\n            message_buffer.set_messages.setdefault(\n                (message.node_id, message.child_id, message.message_type), message\n            )\n")]),
    ("c07_flush_on_heartbeat_22", "C07", [(P22,
        "        node.heartbeat = heartbeat\n\n        return message\n",
        "        node.heartbeat = heartbeat\n\n        return await cls._handle_sleep_buffer(gateway, message, message_buffer)\n")]),
    ("c07_presleep_forgets_sleeping", "C04", [(P22,
        "        node = gateway.nodes[message.node_id]\n        node.sleeping = True\n\n        return await cls._handle_sleep_buffer",
        "        node = gateway.nodes[message.node_id]\n        node.sleeping = node.sleeping or bool(message.payload)\n\n        return await cls._handle_sleep_buffer")]),
    ("c07_key_without_type", "C07", [(P14,
        "            message_buffer.set_messages[\n                (message.node_id, message.child_id, message.message_type)\n            ] = message\n\n            return\n\n        await gateway.transport.write(decoded_message)\n\n    @classmethod\n    async def handle_internal",
        "            message_buffer.set_messages[\n                (message.node_id, message.child_id, 0)\n            ] = message\n\n            return\n\n        await gateway.transport.write(decoded_message)\n\n    @classmethod\n    async def handle_internal")]),
    ("c08_pop_before_write", "C08", [(P20,
        "            await gateway.send(buffer_message, message_buffer=False)\n            # clear the sleep buffer for this node,\n            # unless a newer message was buffered while we were sending.\n            if message_buffer.set_messages.get(key) is buffer_message:\n                message_buffer.set_messages.pop(key)",
        "            if message_buffer.set_messages.get(key) is buffer_message:\n                message_buffer.set_messages.pop(key)\n            await gateway.send(buffer_message, message_buffer=False)")]),
    ("c08_swallow_error", "C08", [(P20,
        "            await gateway.send(buffer_message, message_buffer=False)\n            # clear",
        "            try:\n                await gateway.send(buffer_message, message_buffer=False)\n            except Exception:  # noqa: BLE001\n                continue\n            # clear")]),
    ("c08_clear_before_loop", "C08", [(P20,
        "        for key, buffer_message in node_messages.items():\n            await gateway.send",
        "        for key in node_messages:\n            message_buffer.set_messages.pop(key)\n        for key, buffer_message in node_messages.items():\n            await gateway.send")]),
    ("c10_pop_marker_wrong_node", "C10", [(P20,
        "        key = (\n            message.node_id,\n            message.child_id,\n            Internal.I_PRESENTATION,\n        )\n        if key in message_buffer.internal_messages:\n            message_buffer.internal_messages.pop(key)",
        "        key = (\n            message.node_id,\n            message.child_id,\n            Internal.I_PRESENTATION,\n        )\n        if key in message_buffer.internal_messages:\n            message_buffer.internal_messages.pop(key)\n        elif message.child_id == SYSTEM_CHILD_ID and message_buffer.internal_messages:\n            message_buffer.internal_messages.pop(next(iter(message_buffer.internal_messages)))")]),
    ("c10_never_rearm", "C10", [(P20,
        "        if key in message_buffer.internal_messages:\n            message_buffer.internal_messages.pop(key)\n        return await super().handle_presentation",
        "        if key in message_buffer.internal_messages and message.node_id == 0:\n            message_buffer.internal_messages.pop(key)\n        return await super().handle_presentation")]),
    ("c10_marker_before_write", "C10", [(P20,
        "                await gateway.send(presentation_message, message_buffer=False)\n                # Remember the request to avoid spamming gateway.\n                message_buffer.internal_messages[key] = presentation_message\n",
        "                message_buffer.internal_messages[key] = presentation_message\n                await gateway.send(presentation_message, message_buffer=False)\n")]),
    ("c10_marker_keyed_by_child", "C10", [(P20,
        "            key = (\n                presentation_message.node_id,\n                presentation_message.child_id,\n                presentation_message.message_type,\n            )\n            if key not in",
        "            key = (\n                presentation_message.node_id if message.child_id != 7 else 0,\n                presentation_message.child_id,\n                presentation_message.message_type,\n            )\n            if key not in")]),
    ("c10_request_also_15", "C10 C19", [("src/aiomysensors/model/protocol/protocol_15.py",
        "class IncomingMessageHandler(IncomingMessageHandler14):\n    \"\"\"Represent a message handler.\"\"\"\n",
        "class IncomingMessageHandler(IncomingMessageHandler14):\n    \"\"\"Represent a message handler.\"\"\"\n\n    @classmethod\n    async def handle_set(cls, gateway, message, message_buffer):  # noqa: ANN001, ANN206, D102\n        from aiomysensors.exceptions import MissingNodeError  # noqa: PLC0415\n        from aiomysensors.model.message import Message  # noqa: PLC0415\n\n        try:\n            return await super().handle_set(gateway, message, message_buffer)\n        except MissingNodeError:\n            await gateway.send(Message(message.node_id, 255, 3, 0, 19), message_buffer=False)\n            raise\n")]),
    ("c12_internal_parked_when_buffered", "C12", [(P14,
        "        \"\"\"Process outgoing internal messages.\"\"\"\n        await gateway.transport.write(decoded_message)",
        "        \"\"\"Process outgoing internal messages.\"\"\"\n        if message_buffer and message.message_type == 18:\n            message_buffer.internal_messages[(message.node_id, message.child_id, 18)] = message\n            return\n        await gateway.transport.write(decoded_message)")]),
    ("c12_req_dropped_for_sleeping", "C12", [(P14,
        "        \"\"\"Process outgoing req messages.\"\"\"\n        await gateway.transport.write(decoded_message)",
        "        \"\"\"Process outgoing req messages.\"\"\"\n        node = gateway.nodes.get(message.node_id)\n        if message_buffer and node and node.sleeping:\n            return\n        await gateway.transport.write(decoded_message)")]),
    ("c12_non_message_attribute_error", "C12", [(MSG,
        "        except KeyError as err:\n            raise ValidationError(\"Not a valid Message instance\") from err",
        "        except KeyError as err:\n            raise AttributeError(\"Not a valid Message instance\") from err")]),
    ("c11_len_nodes", "C11", [(P14, "        next_id = max(gateway.nodes) + 1 if gateway.nodes else 1",
        "        next_id = len(gateway.nodes) + 1 if 0 not in gateway.nodes else len(gateway.nodes)")]),
    ("c11_bound_ge", "C11", [(P14, "        if next_id > MAX_NODE_ID:", "        if next_id >= MAX_NODE_ID:")]),
    ("c11_allow_255", "C11", [(P14, "        if next_id > MAX_NODE_ID:", "        if next_id > MAX_NODE_ID + 1:")]),
    ("c11_register_after_write", "C11", [(P14,
        "        gateway.nodes[next_id] = Node(\n            next_id,\n            Presentation.S_ARDUINO_NODE,\n            DEFAULT_PROTOCOL_VERSION,\n        )\n        id_response_message = Message(\n            node_id=message.node_id,\n            child_id=message.child_id,\n            command=message.command,\n            message_type=Internal.I_ID_RESPONSE,\n            payload=str(next_id),\n        )\n        await gateway.send(id_response_message, message_buffer=False)\n",
        "        id_response_message = Message(\n            node_id=message.node_id,\n            child_id=message.child_id,\n            command=message.command,\n            message_type=Internal.I_ID_RESPONSE,\n            payload=str(next_id),\n        )\n        await gateway.send(id_response_message, message_buffer=False)\n        gateway.nodes[next_id] = Node(\n            next_id,\n            Presentation.S_ARDUINO_NODE,\n            DEFAULT_PROTOCOL_VERSION,\n        )\n")]),
    ("c11_response_to_broadcast", "C11", [(P14,
        "            node_id=message.node_id,\n            child_id=message.child_id,\n            command=message.command,\n            message_type=Internal.I_ID_RESPONSE,",
        "            node_id=255,\n            child_id=message.child_id,\n            command=message.command,\n            message_type=Internal.I_ID_RESPONSE,")]),
    ("c01_split_all_delimiters", "C01 C02", [(MSG,
        "        list_data = in_data.rstrip().split(DELIMITER, len(self.fields) - 1)\n        if len(list_data) != len(self.fields):",
        "        list_data = in_data.rstrip().split(DELIMITER)[: len(self.fields)]\n        if len(list_data) != len(self.fields):")]),
    ("c01_payload_lstrip", "C01 C02", [(MSG,
        "        return dict(zip(self.fields, list_data, strict=True))",
        "        list_data[-1] = list_data[-1].lstrip()\n        return dict(zip(self.fields, list_data, strict=True))")]),
    ("c01_dump_crlf", "C01", [(MSG,
        "            string = f\"{DELIMITER.join([str(data[field]) for field in self.fields])}\\n\"",
        "            string = f\"{DELIMITER.join([str(data[field]) for field in self.fields])}\\r\\n\"")]),
    ("c01_type_abs", "C01 C02", [(MSG,
        "        self.message_type = int(message_type)", "        self.message_type = abs(int(message_type))")]),
    ("c02_revert_fieldcount", "C02 C03", [(MSG,
        "        if len(list_data) != len(self.fields):\n            raise ValidationError(\n                f\"The message must have {len(self.fields)} fields \"\n                f\"separated by {DELIMITER}.\",\n            )\n        return dict(zip(self.fields, list_data, strict=True))",
        "        return dict(zip(self.fields, list_data, strict=False))")]),
    ("c02_node_max_254", "C02 C01", [("src/aiomysensors/model/const.py", "        max=BROADCAST_ID,", "        max=MAX_NODE_ID,")]),
    ("c02_child255_set_allowed", "C02", [(MSG,
        "        if child_id == SYSTEM_CHILD_ID:\n            valid_commands = protocol.VALID_SYSTEM_COMMAND_TYPES",
        "        if child_id == SYSTEM_CHILD_ID and command != 1:\n            valid_commands = protocol.VALID_SYSTEM_COMMAND_TYPES")]),
    ("c02_ack_validator_removed", "C02", [(MSG,
        "    ack = fields.Int(required=True, validate=validate.OneOf((0, 1)))", "    ack = fields.Int(required=True)")]),
    ("c02_idrequest_strict", "C02 C01", [(MSG,
        "        and message_type in protocol.NODE_ID_REQUEST_TYPES\n    ):", "        and message_type in protocol.NODE_ID_REQUEST_TYPES\n        and child_id != 9\n    ):")]),
    ("c02_stream_child_any", "C02", [(P14,
        "STRICT_SYSTEM_COMMAND_TYPES = {\n    Command.internal.value,\n    Command.stream.value,\n}",
        "STRICT_SYSTEM_COMMAND_TYPES = {\n    Command.internal.value,\n}")]),
    ("c05_gt_instead_of_ge", "C05", [(PINIT, "            if major_minor >= AwesomeVersion(_protocol_version)", "            if major_minor > AwesomeVersion(_protocol_version)")]),
    ("c05_sort_not_reversed", "C05", [(PINIT, "sorted(PROTOCOL_VERSIONS, reverse=True)", "sorted(PROTOCOL_VERSIONS)")]),
    ("c05_store_before_resolve", "C05", [(GW,
        "        protocol = get_protocol(value)\n        self._protocol_version = value\n", "        self._protocol_version = value\n        protocol = get_protocol(value)\n")]),
    ("c05_internal_table_21_short", "C05 C19", [("src/aiomysensors/model/protocol/protocol_21.py",
        "    I_REGISTRATION_RESPONSE = 27  # Register response from GW\n    I_DEBUG = 28  # Debug message\n", "    I_REGISTRATION_RESPONSE = 27  # Register response from GW\n")]),
    ("c19_override_set_in_21", "C19", [("src/aiomysensors/model/protocol/protocol_21.py",
        "class IncomingMessageHandler(IncomingMessageHandler20):\n    \"\"\"Represent a message handler.\"\"\"\n",
        "class IncomingMessageHandler(IncomingMessageHandler20):\n    \"\"\"Represent a message handler.\"\"\"\n\n    @classmethod\n    async def handle_i_sketch_name(cls, gateway, message, message_buffer):  # noqa: ANN001, ANN206, D102\n        message = await super().handle_i_sketch_name(gateway, message, message_buffer)\n        gateway.nodes[message.node_id].sketch_name = message.payload.strip()\n        return message\n")]),
    ("c19_renumber_15_internal", "C19 C05", [("src/aiomysensors/model/protocol/protocol_15.py",
        "    I_SKETCH_NAME = 11\n", "    I_SKETCH_NAME = 12\n"), ("src/aiomysensors/model/protocol/protocol_15.py",
        "    I_SKETCH_VERSION = 12\n", "    I_SKETCH_VERSION = 11\n")]),
    ("c19_alias_reorder_22", "C19", [(P22,
        "    I_DISCOVER_REQUEST = 20\n    I_DISCOVER = 20  # Alias for I_DISCOVER_REQUEST\n    I_DISCOVER_RESPONSE = 21\n    I_HEARTBEAT_RESPONSE = 22\n",
        "    I_DISCOVER_REQUEST = 20\n    I_DISCOVER = 20  # Alias for I_DISCOVER_REQUEST\n    I_DISCOVER_ANSWER = 21\n    I_DISCOVER_RESPONSE = 21\n    I_HEARTBEAT_RESPONSE = 22\n")]),
    ("c19_22_set_no_reboot", "C19", [(P22,
        "class IncomingMessageHandler(IncomingMessageHandler21):\n    \"\"\"Represent a message handler.\"\"\"\n",
        "class IncomingMessageHandler(IncomingMessageHandler21):\n    \"\"\"Represent a message handler.\"\"\"\n\n    @classmethod\n    async def handle_i_config(cls, gateway, message, message_buffer):  # noqa: ANN001, ANN206, D102\n        if gateway.nodes.get(message.node_id) and gateway.nodes[message.node_id].sleeping:\n            return message\n        return await super().handle_i_config(gateway, message, message_buffer)\n")]),
    ("c17_readline_partial_at_eof", "C17", [(TR,
        "            read = await self.reader.readuntil(TERMINATOR)", "            read = await self.reader.readline()")]),
    ("c17_decode_ignore", "C17", [(TR, "            return read.decode()", "            return read.decode(errors=\"ignore\")")]),
    ("c17_revert_decode_fix", "C17 C03", [(TR,
        "        try:\n            return read.decode()\n        except UnicodeDecodeError as err:\n            raise TransportReadError(err, read) from err\n",
        "        return read.decode()\n")]),
    ("c17_write_ascii_replace", "C17", [(TR, "            self.writer.write(decoded_message.encode())",
        "            self.writer.write(decoded_message.encode(\"ascii\", \"replace\"))")]),
    ("c17_eof_maps_to_empty", "C17", [(TR,
        "        except asyncio.IncompleteReadError as err:\n            raise TransportReadError(err, err.partial) from err",
        "        except asyncio.IncompleteReadError as err:\n            if not err.partial:\n                return \"\"\n            raise TransportReadError(err, err.partial) from err")]),
    ("c17_no_drain", "C17", [(TR, "            await self.writer.drain()\n", "")]),
    ("c17_disconnect_not_absorbing", "C17 C16", [(TR, "        except OSError:\n            pass", "        except ConnectionError:\n            pass")]),
    ("c17_connect_timeout_uncaught", "C17", [(TR, "            self.reader, self.writer = await self._open_connection()\n        except OSError as err:",
        "            self.reader, self.writer = await self._open_connection()\n        except ConnectionError as err:")]),
    ("c17_write_before_connect_noop", "C17", [(TR,
        "        if self.writer is None:\n            raise TransportError(\"Not connected to stream transport.\")\n\n        try:\n            self.writer.write",
        "        if self.writer is None:\n            return\n\n        try:\n            self.writer.write")]),
    ("c09_revert_fix", "C09", [(P20,
        "            if message_buffer.set_messages.get(key) is buffer_message:\n                message_buffer.set_messages.pop(key)",
        "            message_buffer.set_messages.pop(key, None)")]),
]


def main():
    os.makedirs(OUT, exist_ok=True)
    for name, props, edits in MUTANTS:
        chunks = [f"# props: {props}\n"]
        for path, old, new in edits:
            src = open(os.path.join(REPO, path)).read()
            if src.count(old) != 1:
                print(f"!! {name}: pattern occurs {src.count(old)}x in {path}")
                continue
            dst = src.replace(old, new)
            chunks += list(difflib.unified_diff(src.splitlines(True), dst.splitlines(True),
                                                "a/" + path, "b/" + path))
        with open(os.path.join(OUT, name + ".patch"), "w") as f:
            f.writelines(chunks)
    print(f"wrote {len(MUTANTS)} mutants to {OUT}")


if __name__ == "__main__":
    main()

#!/bin/bash
# Re-evaluate every filed property-preserving change (seeded/r-* and seeded/s-*) against the current checks.
# usage: selftest/reeval_refactorings.sh [name ...]      expected: alarms=[] for every one
cd "$(dirname "$0")/.." || exit 2
names=("$@"); [ ${#names[@]} -eq 0 ] && names=($(ls seeded | grep -E '^[rst]-[0-9]+$'))
for n in "${names[@]}"; do
  timeout 7200 /venv/bin/python selftest/refactoring.py "seeded/$n" "$n" 2>&1 | grep -v "^WARNING conda" | cut -c1-600
done

"""Determinism self-test.

For every property: N scenarios (same VERIF_SEED) are executed
  (1) twice in this process,
  (2) once more in a FRESH interpreter under a different PYTHONHASHSEED,
  (3) by the parallel batch runner with 1 worker and with 16 workers,
and the event-log digests must be identical everywhere.

usage: PYTHONHASHSEED=0 /venv/bin/python selftest/determinism.py [--n 40] [--seed 0] [PROP ...]
"""

from __future__ import annotations

import json
import os
import subprocess
import sys

VERIF = os.path.dirname(os.path.dirname(os.path.abspath(__file__)))
sys.path.insert(0, VERIF)

ALL = [f"C{i:02d}" for i in range(1, 20)]


def digests(pid: str, seed: int, n: int, tier: str = "quick") -> list[str]:
    from vsim import runner

    mod = runner.load_prop(pid)
    out = []
    stride = max(1, mod.budget(tier) // n)
    for k in range(n):
        i = k * stride
        out.append(mod.run(mod.gen(seed, i, tier)).digest)
    return out


def main() -> int:
    args = sys.argv[1:]
    n, seed = 40, 0
    if "--n" in args:
        n = int(args[args.index("--n") + 1])
        del args[args.index("--n"):args.index("--n") + 2]
    if "--seed" in args:
        seed = int(args[args.index("--seed") + 1])
        del args[args.index("--seed"):args.index("--seed") + 2]
    if "--child" in args:
        pid = args[args.index("--child") + 1]
        print(json.dumps(digests(pid, seed, n)))
        return 0
    props = [a.upper() for a in args] or ALL
    bad = 0
    for pid in props:
        a = digests(pid, seed, n)
        b = digests(pid, seed, n)
        same_proc = a == b
        env = dict(os.environ, PYTHONHASHSEED="4242", TZ="UTC")
        r = subprocess.run([sys.executable, __file__, "--n", str(n), "--seed", str(seed), "--child", pid],
                           capture_output=True, text=True, env=env, cwd=VERIF, timeout=1800)
        try:
            c = json.loads([ln for ln in r.stdout.splitlines() if ln.startswith("[")][-1])
        except Exception:  # noqa: BLE001
            c = None
        fresh = c == a
        # parallel runner: same scenarios, different worker counts -> same evidence digests
        counts = []
        for workers in ("1", "16"):
            env2 = dict(os.environ, PYTHONHASHSEED="0", VERIF_WORKERS=workers, VERIF_SEED=str(seed), TZ="UTC",
                        VERIF_BUDGET_SCALE="0.1", VERIF_EVIDENCE_DIR="/tmp/verif-determinism-evidence")
            rr = subprocess.run(["./check", pid, "--tier", "quick"], capture_output=True, text=True, env=env2,
                                cwd=VERIF, timeout=3600)
            ev = json.load(open(os.path.join("/tmp/verif-determinism-evidence", f"{pid}.json")))
            counts.append((ev["coverage"]["evaluations"], ev["coverage"]["distinct_event_log_digests"],
                           ev["coverage"]["determinism_selfcheck"]["mismatch"], rr.returncode))
        par = counts[0][:3] == counts[1][:3] and counts[0][2] == 0
        ok = same_proc and fresh and par
        bad += not ok
        print(f"{pid}: same-process={same_proc} fresh-interpreter-other-hashseed={fresh} "
              f"workers1-vs-16={par} {counts} distinct={len(set(a))}/{n} {'OK' if ok else 'MISMATCH'}")
    return 1 if bad else 0


if __name__ == "__main__":
    sys.exit(main())

"""Sensitivity self-test: apply a source mutant to a scratch copy of the repo,
check the pinned test suite stays green, check that the property's quick check
turns red with a replay that reproduces, and delete the scratch copy.

usage: /venv/bin/python selftest/mutation.py [--no-tests] [--keep] <mutant.patch|dir> [PROP ...]

A mutant file is a unified diff (-p1 relative to the repo root). Its first
lines may carry '# props: C06 C07' naming the properties expected to catch it.
"""

from __future__ import annotations

import os
import re
import shutil
import subprocess
import sys
import tempfile

VERIF = os.path.dirname(os.path.dirname(os.path.abspath(__file__)))
REPO = os.environ.get("VERIF_REPO_BASE", "/repo")


def sh(cmd, **kw):
    return subprocess.run(cmd, shell=True, text=True, capture_output=True, **kw)


def run_mutant(patch: str, props: list[str], tests: bool, keep: bool = False) -> dict:
    text = open(patch).read()
    if not props:
        m = re.search(r"^# props:\s*(.+)$", text, re.M)
        props = m.group(1).split() if m else []
    scratch = tempfile.mkdtemp(prefix="vmut-")
    out = {"mutant": os.path.basename(patch), "props": props, "tests": None, "caught_by": [], "missed_by": []}
    try:
        dst = os.path.join(scratch, "repo")
        shutil.copytree(REPO, dst, ignore=shutil.ignore_patterns(".git", "__pycache__", ".coverage", "coverage.xml",
                                                                 ".idea", "*.pyc"))
        r = sh(f"patch -p1 -s < {os.path.abspath(patch)}", cwd=dst)
        if r.returncode != 0:
            out["error"] = "patch failed: " + r.stdout + r.stderr
            return out
        if tests:
            r = sh(f"PYTHONPATH={dst}/src timeout 900 /venv/bin/python -m pytest -q -p no:cacheprovider -x "
                   f"--no-cov -o addopts='' 2>&1 | tail -3", cwd=dst)
            out["tests"] = "passed" in r.stdout and "failed" not in r.stdout
            out["tests_tail"] = r.stdout.strip().splitlines()[-1:] if r.stdout.strip() else []
        for p in props:
            env = dict(os.environ, VERIF_REPO=dst)
            r = sh(f"timeout 900 ./check {p} --tier quick", cwd=VERIF, env=env)
            lines = [ln for ln in r.stdout.splitlines() if ln.startswith("VIOLATION")]
            caught = r.returncode == 1 and bool(lines)
            replay_ok = None
            if caught:
                path = lines[0].split("replay=")[1]
                rr = sh(f"timeout 300 ./check {p} --replay {path}", cwd=VERIF, env=env)
                replay_ok = rr.returncode == 1
                rb = sh(f"timeout 300 ./check {p} --replay {path}", cwd=VERIF)  # on the unmutated tree
                out.setdefault("replay_on_base", {})[p] = rb.returncode
                sigs = [ln for ln in r.stdout.splitlines() if "violation signature=" in ln]
                out.setdefault("signatures", {})[p] = [s.split("signature=")[1][:160] for s in sigs][:4]
            (out["caught_by"] if caught and replay_ok else out["missed_by"]).append(
                p if caught and replay_ok else f"{p}(exit={r.returncode},replay={replay_ok})")
            if not caught:
                out.setdefault("tail", {})[p] = (r.stdout + r.stderr)[-600:]
    finally:
        if not keep:
            shutil.rmtree(scratch, ignore_errors=True)
    return out


def main():
    args = sys.argv[1:]
    tests = True
    keep = False
    if "--no-tests" in args:
        tests = False
        args.remove("--no-tests")
    if "--keep" in args:
        keep = True
        args.remove("--keep")
    target, props = args[0], [a.upper() for a in args[1:]]
    files = [target] if os.path.isfile(target) else sorted(
        os.path.join(target, f) for f in os.listdir(target) if f.endswith((".patch", ".diff")))
    bad = 0
    for f in files:
        res = run_mutant(f, props, tests, keep)
        status = "CAUGHT" if res["caught_by"] and not res["missed_by"] else "MISSED"
        if res.get("error"):
            status = "ERROR"
        if status != "CAUGHT":
            bad += 1
        print(f"{status:7s} {res['mutant']:45s} tests_green={res['tests']} caught_by={res['caught_by']} "
              f"missed_by={res['missed_by']} {res.get('error', '')}")
        for p, s in res.get("signatures", {}).items():
            print(f"          {p}: {s}")
        for p, t in res.get("tail", {}).items():
            print(f"          {p} tail: {t[-300:]!r}")
    return 1 if bad else 0


if __name__ == "__main__":
    sys.exit(main())

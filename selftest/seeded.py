"""Evaluate an independently written seeded breakage and file it under /verif/seeded/<name>/.

usage: /venv/bin/python selftest/seeded.py <dir with patch.diff demo.py notes.md> <name> <PROP> [extra PROP ...]

Steps (all in a scratch copy of /repo outside /repo and /verif, removed afterwards):
  1. demo.py on the unchanged copy must exit 0
  2. apply patch.diff; the pinned test suite must stay green
  3. demo.py must exit 1
  4. run the named checks (quick tier) with VERIF_REPO=<scratch>; record exit code, signatures, replay reproduction
"""

from __future__ import annotations

import json
import os
import shutil
import subprocess
import sys
import tempfile
import time

VERIF = os.path.dirname(os.path.dirname(os.path.abspath(__file__)))


def sh(cmd, **kw):
    return subprocess.run(cmd, shell=True, text=True, capture_output=True, **kw)


def main():
    src, name, props = os.path.abspath(sys.argv[1]), sys.argv[2], [p.upper() for p in sys.argv[3:]]
    scratch = tempfile.mkdtemp(prefix="vseed-")
    dst = os.path.join(scratch, "repo")
    meta = {"name": name, "breaks_property": props[0], "checked_with": props, "date": time.strftime("%Y-%m-%d"),
            "source": "independent sub-agent given only the property text and a scratch worktree"}
    try:
        shutil.copytree("/repo", dst, ignore=shutil.ignore_patterns(".git", "__pycache__", ".coverage", "coverage.xml",
                                                                    ".idea", "*.pyc", "seeded"))
        demo = os.path.join(src, "demo.py")
        r0 = sh(f"PYTHONPATH={dst}/src timeout 300 /venv/bin/python {demo}", cwd=dst)
        meta["demo_exit_unchanged"] = r0.returncode
        ra = sh(f"patch -p1 -s < {os.path.join(src, 'patch.diff')}", cwd=dst)
        if ra.returncode != 0:
            meta["error"] = "patch does not apply: " + (ra.stdout + ra.stderr)[-400:]
            print(f"{name}: ERROR {meta['error'][:200]}")
            return 2
        rt = sh(f"PYTHONPATH={dst}/src timeout 900 /venv/bin/python -m pytest -q -p no:cacheprovider -o addopts='' "
                f"2>&1 | tail -2", cwd=dst)
        meta["tests_with_change"] = rt.stdout.strip().splitlines()[-1] if rt.stdout.strip() else ""
        meta["tests_green"] = " passed" in rt.stdout and "failed" not in rt.stdout and "error" not in rt.stdout.lower()
        r1 = sh(f"PYTHONPATH={dst}/src timeout 300 /venv/bin/python {demo}", cwd=dst)
        meta["demo_exit_with_change"] = r1.returncode
        meta["demo_output_with_change"] = (r1.stdout + r1.stderr)[-600:]
        meta["checks"] = {}
        for p in props:
            env = dict(os.environ, VERIF_REPO=dst)
            t0 = time.time()
            r = sh(f"timeout 1800 ./check {p} --tier quick", cwd=VERIF, env=env)
            lines = [ln for ln in r.stdout.splitlines() if ln.startswith("VIOLATION")]
            sigs = [ln.split("signature=")[1][:200] for ln in r.stdout.splitlines() if "violation signature=" in ln]
            entry = {"exit": r.returncode, "violations": len(lines), "signatures": sigs[:5], "wall_s": round(time.time() - t0, 1)}
            if lines:
                path = lines[0].split("replay=")[1]
                rr = sh(f"timeout 600 ./check {p} --replay {path}", cwd=VERIF, env=env)
                rb = sh(f"timeout 600 ./check {p} --replay {path}", cwd=VERIF)
                entry["replay_reproduces_with_change"] = rr.returncode == 1
                entry["replay_on_unchanged_tree_exit"] = rb.returncode
                try:
                    entry["minimised_replay"] = json.load(open(path))["scenario"]
                except Exception:  # noqa: BLE001
                    pass
            else:
                entry["tail"] = (r.stdout + r.stderr)[-500:]
            meta["checks"][p] = entry
        meta["detected"] = any(c["exit"] == 1 and c["violations"] for c in meta["checks"].values())
    finally:
        shutil.rmtree(scratch, ignore_errors=True)
    out = os.path.join(VERIF, "seeded", name)
    os.makedirs(out, exist_ok=True)
    for f in ("patch.diff", "demo.py", "notes.md"):
        if os.path.exists(os.path.join(src, f)) and os.path.abspath(src) != os.path.abspath(out):
            shutil.copy(os.path.join(src, f), os.path.join(out, f))
    notes = os.path.join(src, "notes.md")
    meta["needs_to_manifest"] = open(notes).read()[:1500] if os.path.exists(notes) else ""
    meta["what_was_run"] = ["demo.py on unchanged scratch copy", "patch -p1 < patch.diff", "pinned pytest suite",
                            "demo.py with change"] + [f"VERIF_REPO=<scratch> ./check {p} --tier quick (+ --replay)" for p in props]
    with open(os.path.join(out, "meta.json"), "w") as f:
        json.dump(meta, f, indent=1)
    ok = meta.get("tests_green") and meta["demo_exit_unchanged"] == 0 and meta["demo_exit_with_change"] == 1
    print(f"{name}: valid_seed={bool(ok)} tests={meta.get('tests_with_change')} demo {meta['demo_exit_unchanged']}->"
          f"{meta['demo_exit_with_change']} detected={meta.get('detected')} "
          + " ".join(f"{p}:exit={c['exit']},sigs={c['signatures'][:2]}" for p, c in meta.get('checks', {}).items()))
    return 0


if __name__ == "__main__":
    sys.exit(main())

#!/bin/bash
# Re-evaluate every filed seeded change against the current checks (rewrites seeded/*/meta.json).
# usage: selftest/reeval_seeded.sh [name ...]
cd "$(dirname "$0")/.." || exit 2
declare -A EXTRA=( [b-c03]="C09" [b-c08]="C09" [b-c12]="C08" [b-c13]="C11" [a-c03]="C17" [c-c03]="C17" [c-c02]="C04" [d-c09]="C06 C07" [g-c13]="C16" )
names=("$@"); [ ${#names[@]} -eq 0 ] && names=($(ls seeded | grep -E '^[a-z]-c[0-9]+$'))
for n in "${names[@]}"; do
  p="C${n#*-c}"
  timeout 3000 /venv/bin/python selftest/seeded.py "seeded/$n" "$n" "$p" ${EXTRA[$n]} 2>&1 | grep -v "^WARNING conda" | cut -c1-260
done

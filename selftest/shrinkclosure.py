"""Soundness self-test: the oracles must stay sound on everything the shrinker can produce.

The minimiser (vsim/runner.shrink) removes elements of the scenario's lists and zeroes tape entries.  If an oracle
relied on an invariant that only the *generator* establishes (a presentation that precedes a reference, a wake that
follows a send ...), a minimised replay could report a "violation" that is no violation - on any tree.  This test
takes generated scenarios, applies random deletions of exactly that kind, runs them on the UNCHANGED tree and demands
that nothing but the known findings is reported.

usage: PYTHONHASHSEED=0 /venv/bin/python selftest/shrinkclosure.py [--n 300] [--seed 0] [PROP ...]
"""

from __future__ import annotations

import json
import os
import random
import sys
from concurrent.futures import ProcessPoolExecutor
import multiprocessing as mp

VERIF = os.path.dirname(os.path.dirname(os.path.abspath(__file__)))
sys.path.insert(0, VERIF)
ALL = [f"C{i:02d}" for i in range(1, 20)]


def mutilate(mod, scn, rng):
    scn = json.loads(json.dumps(scn))
    shrinkable = getattr(mod, "SHRINK_LISTS", ("ops", "setup", "tapes", "actors", "lines", "sends"))
    lists = []

    def walk(obj, path):
        if isinstance(obj, dict):
            for k in obj:
                walk(obj[k], path + (k,))
        elif isinstance(obj, list):
            if path and path[0] in shrinkable:
                lists.append(obj)
                for v in obj:
                    if isinstance(v, (dict, list)) and path[0] in ("actors", "tapes"):
                        walk(v, path + ("*",))

    walk(scn, ())
    lists = [x for x in lists if x]
    if not lists:
        return None
    for _ in range(rng.randint(1, 4)):
        lst = rng.choice(lists)
        if not lst:
            continue
        if rng.random() < 0.5:
            k = rng.randrange(len(lst))
            n = rng.randint(1, max(1, len(lst) // 2))
            del lst[k:k + n]
        else:
            del lst[rng.randrange(len(lst))]
    tapes = scn.get("tapes")
    if isinstance(tapes, dict) and rng.random() < 0.3:
        for name, lst in tapes.items():
            if isinstance(lst, list):
                for i, v in enumerate(lst):
                    if isinstance(v, (int, float)) and not isinstance(v, bool) and rng.random() < 0.3:
                        lst[i] = 0
    return scn


def work(args):
    pid, seed, lo, hi = args
    from vsim import runner
    mod = runner.load_prop(pid)
    known = {tuple(k["signature"]) for k in runner.load_known() if k.get("status") == "known"}
    out = []
    tried = 0
    stride = max(1, mod.budget("quick") // 400)
    for k in range(lo, hi):
        i = k * stride
        base = mod.gen(seed, i, "quick")
        rng = random.Random(f"closure:{pid}:{seed}:{i}")
        for _ in range(3):
            cand = mutilate(mod, base, rng)
            if cand is None:
                break
            if hasattr(mod, "valid") and not mod.valid(cand):
                continue
            tried += 1
            try:
                res = runner.run_one(mod, cand)
            except Exception as exc:  # noqa: BLE001
                out.append(("harness-error", repr(exc)[:200], cand))
                continue
            for sig in res.signatures():
                if tuple(sig) not in known:
                    out.append(("violation", list(sig), cand))
    return pid, tried, out


def main() -> int:
    args = sys.argv[1:]
    n, seed = 300, 0
    for flag in ("--n", "--seed"):
        if flag in args:
            v = int(args[args.index(flag) + 1])
            del args[args.index(flag):args.index(flag) + 2]
            if flag == "--n":
                n = v
            else:
                seed = v
    props = [a.upper() for a in args] or ALL
    jobs = []
    step = max(1, n // 8)
    for pid in props:
        for lo in range(0, n, step):
            jobs.append((pid, seed, lo, min(n, lo + step)))
    bad = 0
    tried = {}
    errors = {}
    with ProcessPoolExecutor(max_workers=int(os.environ.get("VERIF_WORKERS", "16")), mp_context=mp.get_context("fork")) as ex:
        for pid, t, out in ex.map(work, jobs):
            tried[pid] = tried.get(pid, 0) + t
            for kind, what, cand in out:
                if kind == "harness-error":  # the minimiser discards candidates that do not execute
                    errors[pid] = errors.get(pid, 0) + 1
                    continue
                bad += 1
                if bad <= 40:
                    print(f"{pid}: {kind} {what}\n    scenario={json.dumps(cand)[:600]}")
    for pid in props:
        print(f"{pid}: {tried.get(pid, 0)} mutilated scenarios executed, {errors.get(pid, 0)} not executable")
    print("OK" if not bad else f"{bad} reports on mutilated scenarios")
    return 1 if bad else 0


if __name__ == "__main__":
    sys.exit(main())

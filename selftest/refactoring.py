"""Soundness self-test: a property-PRESERVING change must not raise any alarm.

usage: /venv/bin/python selftest/refactoring.py <dir with patch.diff notes.md [check.py]> <name> [PROP ...]

The patch is applied to a scratch copy of /repo (outside /repo and /verif, removed afterwards), the pinned test suite
must stay green, and every named check (default: all 19, quick tier) is run with VERIF_REPO=<scratch>.  Expected: exit 0
everywhere.  The result is filed as seeded/<name>/meta.json.
"""

from __future__ import annotations

import json
import os
import shutil
import subprocess
import sys
import tempfile
import time

VERIF = os.path.dirname(os.path.dirname(os.path.abspath(__file__)))
ALL = [f"C{i:02d}" for i in range(1, 20)]


def sh(cmd, **kw):
    return subprocess.run(cmd, shell=True, text=True, capture_output=True, **kw)


def main():
    src, name = os.path.abspath(sys.argv[1]), sys.argv[2]
    props = [p.upper() for p in sys.argv[3:]] or ALL
    scratch = tempfile.mkdtemp(prefix="vref-")
    dst = os.path.join(scratch, "repo")
    meta = {"name": name, "kind": "property-preserving change (soundness round)", "date": time.strftime("%Y-%m-%d"),
            "source": "independent sub-agent given the 19 property statements and a scratch worktree, nothing from /verif",
            "checked_with": props}
    try:
        shutil.copytree("/repo", dst, ignore=shutil.ignore_patterns(".git", "__pycache__", ".coverage", "coverage.xml",
                                                                    ".idea", "*.pyc", "seeded"))
        ra = sh(f"patch -p1 -s < {os.path.join(src, 'patch.diff')}", cwd=dst)
        if ra.returncode != 0:
            print(f"{name}: patch does not apply: {(ra.stdout + ra.stderr)[-300:]}")
            return 2
        rt = sh(f"PYTHONPATH={dst}/src timeout 900 /venv/bin/python -m pytest -q -p no:cacheprovider -o addopts='' "
                f"2>&1 | tail -2", cwd=dst)
        meta["tests_with_change"] = rt.stdout.strip().splitlines()[-1] if rt.stdout.strip() else ""
        meta["tests_green"] = " passed" in rt.stdout and "failed" not in rt.stdout and "error" not in rt.stdout.lower()
        diff = open(os.path.join(src, "patch.diff")).read()
        meta["diff_lines"] = sum(1 for ln in diff.splitlines() if ln[:1] in "+-" and ln[:3] not in ("+++", "---"))
        meta["checks"] = {}
        for p in props:
            env = dict(os.environ, VERIF_REPO=dst)
            t0 = time.time()
            r = sh(f"timeout 1800 ./check {p} --tier quick", cwd=VERIF, env=env)
            sigs = [ln.split("signature=")[1][:300] for ln in r.stdout.splitlines() if "violation signature=" in ln]
            meta["checks"][p] = {"exit": r.returncode, "signatures": sigs[:5], "wall_s": round(time.time() - t0, 1)}
        meta["alarms"] = [p for p, c in meta["checks"].items() if c["exit"] != 0]
    finally:
        shutil.rmtree(scratch, ignore_errors=True)
    out = os.path.join(VERIF, "seeded", name)
    os.makedirs(out, exist_ok=True)
    for f in ("patch.diff", "notes.md", "check.py"):
        if os.path.exists(os.path.join(src, f)) and src != os.path.abspath(out):
            shutil.copy(os.path.join(src, f), os.path.join(out, f))
    with open(os.path.join(out, "meta.json"), "w") as f:
        json.dump(meta, f, indent=1)
    print(f"{name}: tests={meta.get('tests_with_change')} diff_lines={meta['diff_lines']} alarms={meta['alarms']} "
          + " ".join(f"{p}:{c['signatures'][:1]}" for p, c in meta["checks"].items() if c["exit"] != 0))
    return 0


if __name__ == "__main__":
    sys.exit(main())

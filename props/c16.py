"""C16 — gateway context: load on entry, periodic and final save, no leftovers.

``async with Gateway(transport, Config(persistence_file))`` on the simulated
disk with all four transport kinds (injected SimTransport, TCP and serial on
the simulated byte link, MQTT on the simulated broker).  The body does nothing
/ receives lines / raises; the exit instant is placed by the tape relative to
the background saver's progress (not started, inside open / write / close of a
save, sleeping); faults: connect fails, body raises, disconnect fails; long
stretches of virtual time (up to 30 days) for the cadence.
"""

from __future__ import annotations

import asyncio
import functools
import random
from collections import Counter

from vsim.core import EventLog, RunResult, Tapes, use_repo, task_exc
from vsim.fs import SimDisk, patched_fs
from vsim.gw import SimTransport, gc_paused
from vsim.loop import new_loop
from vsim.mqtt import SimBroker, make_client_class
from vsim.pworld import PATH, build_nodes, native_image, snapshot
from vsim.streams import SimPeer, install_network, make_open_serial_connection

use_repo()
import aiomysensors.transport.mqtt as _mq  # noqa: E402
import aiomysensors.transport.serial as _serial_mod  # noqa: E402
from aiomysensors.exceptions import AIOMySensorsError, TransportError  # noqa: E402
from aiomysensors.gateway import Config, Gateway  # noqa: E402
from aiomysensors.persistence import Persistence  # noqa: E402
from aiomysensors.transport.serial import SerialTransport  # noqa: E402
from aiomysensors.transport.tcp import TCPTransport  # noqa: E402

PROP = "C16"
LEVEL = "exploration"
LEVEL_TEXT = ("Seeded schedules of the gateway context on a virtual-time loop: exit instants swept over the saver's "
              "progress (before its first step, inside each simulated file operation of a save, asleep) by giving file "
              "operations tape latencies and the body a fractional duration; connect / body / disconnect faults; four "
              "transport kinds; bodies that change the registry; runs of up to 30 virtual days. Oracle on the caller-"
              "visible exception, asyncio.all_tasks after exit, disconnect calls, the disk image at exit and after "
              "every completed save (re-loaded and compared with the registry as of that save's start) and the "
              "<= 900 s cadence between consecutive saves. The exit-instant grid (0..9 s in 0.5 s steps x 4 latency "
              "profiles x 4 transports) is swept completely in the thorough tier. Also: cancellation while connecting or "
              "inside the body, a link failure inside the body (reset / broker gone / read error; propagated or caught), "
              "a second context on the same Gateway object (also after a disk fault), and 1900 virtual seconds after "
              "exit in which no task may run and nothing may touch the disk.")
LEVEL_NOTE = ("Trusted: executor jobs are atomic events on the loop thread (thread overlap inside aiofiles not "
              "modelled); the I/O time of a save is not counted against the cadence; built-in transports cannot fail "
              "on disconnect (they absorb errors), so disconnect faults use the injected transport.")
TECHNIQUE = "deterministic simulation: virtual-time schedule search over exit instants x file-op latencies x faults"
RULE = ("scenario = (transport kind, initial image, body, exit instant, exec-latency tape, fault tape); non-trivial iff "
        "the exit landed before the saver's first sleep, a fault fired, or >= 2 periodic saves completed; distinct = "
        "distinct event log")
REAL = ["aiomysensors.Gateway.__aenter__/__aexit__", "aiomysensors.persistence (load/save/start/stop)",
        "TCPTransport/SerialTransport/MQTTClient connect+disconnect", "asyncio tasks/timers", "aiofiles + io stack"]
STUB = ["event loop + thread pool (SimLoop)", "OS file system (SimDisk)", "byte link / broker / injected transport"]
ASSUMPTIONS = ["executor jobs atomic", "one gateway context at a time"]
REQUIRED_PROBES = ["exit_before_saver_started", "exit_inside_open", "exit_inside_write", "exit_inside_close",
                   "exit_while_saver_sleeping", "connect_failed", "body_raised", "disconnect_failed",
                   "periodic_saves_96", "kind_sim", "kind_tcp", "kind_serial", "kind_mqtt", "registry_changed_in_body",
                   "second_context_on_same_gateway", "disk_fault_in_first_session", "cancelled_while_connecting",
                   "cancelled_in_body",
                   "missing_file_on_entry"]
SHRINK_LISTS = ("lines", "tapes")
KINDS = ["sim", "tcp", "serial", "mqtt"]
LAT_PROFILES = [[0], [2, 2, 2], [1, 3, 1], [0, 0, 4]]


class BodyError(Exception):
    pass


def budget(tier):
    return 2500 if tier == "quick" else 4 * 4 * 20 * 3 + 120_000


def wall(tier):
    return 90 if tier == "quick" else 1500


def rand_snap(rng):
    snap = {}
    for n in rng.sample([0, 1, 2, 9, 254], rng.randint(0, 3)):
        snap[str(n)] = {"type": 17, "version": "2.2", "sketch_name": rng.choice(["", "sk"]), "sketch_version": "",
                        "battery": rng.choice([0, 50]), "heartbeat": 0, "sleeping": False,
                        "children": {str(c): {"type": 3, "desc": "", "values": {"2": "1"}} for c in
                                     rng.sample([0, 1], rng.randint(0, 2))}}
    return snap


def gen(seed: int, i: int, tier: str) -> dict:
    rng = random.Random(f"C16:{seed}:{i}")
    grid = 4 * 4 * 20 * 3
    if tier == "thorough" and i < grid:
        kind = KINDS[i % 4]
        prof = LAT_PROFILES[(i // 4) % 4]
        dur = ((i // 16) % 20) * 0.5
        body = ["sleep", "raise", "sleep"][(i // 320) % 3]
        init = "missing" if (i // 320) % 3 == 2 else "image"
        return {"cfg": {"kind": kind, "init": init, "image": rand_snap(rng), "body": body, "duration": dur},
                "lines": [], "tapes": {"exec.lat": prof * 8}}
    kind = rng.choice(KINDS)
    init = rng.choice(["image", "image", "image", "missing", "empty"])
    r = rng.random()
    lines = []
    if r < 0.45:
        body, dur = "sleep", rng.choice([0, 0, 0.5, 1.5, 2.5, 3.5, 4.5, 5.5, 6.5, 7.5, 10.5, 899.5, 900.5, 1000.5])
    elif r < 0.6:
        body, dur = "raise", rng.choice([0, 0.5, 2.5, 4.5, 950.5])
    elif r < 0.8:
        body, dur = "sleep", rng.choice([3600.5, 86400.5, 86400.5 * 3, 86400.5 * 30])
    else:
        body, dur = "lines", 0
        kind = "sim"
        t = 0.0
        for _ in range(rng.randint(1, 8)):
            t = rng.choice([0.5, 1.5, 3.5, 400.5, 901.5])
            n = rng.choice([1, 2, 7])
            lines.append([t, rng.choice([f"{n};255;0;0;17;2.2\n", f"{n};0;0;0;3;c\n", f"{n};0;1;0;2;{rng.randint(0, 9)}\n",
                                         f"{n};255;3;0;0;{rng.randint(0, 100)}\n", f"{n};255;3;0;11;sk{rng.randint(0, 9)}\n"])])
    tapes = {"exec.lat": [rng.choice([0, 0, 1, 2, 3]) for _ in range(rng.randint(0, 12))]}
    if body == "lines" and rng.random() < 0.6:
        # slow file operations for the whole session, not only for the load and the first save
        tapes["exec.lat"] = [rng.choice([0, 1, 2, 3]) for _ in range(rng.randint(12, 36))]
    fr = rng.random()
    if fr < 0.12:
        tapes["connect.fail"] = [rng.choice(["refused", "timeout", "unreachable"])] if kind in ("tcp", "serial") else [1]
        if kind == "mqtt":
            tapes = dict(tapes, **{"mqtt.connect.fail": [1]})
    elif fr < 0.2 and kind == "sim":
        tapes["disconnect.fail"] = [1]
    elif fr < 0.25 and kind == "mqtt":
        tapes["mqtt.subscribe.fail"] = [0, 1]
    if rng.random() < 0.3:
        tapes["connect.lat"] = [rng.choice([1, 2, 5])]
        if kind == "mqtt":
            tapes["mqtt.connect.lat"] = tapes["connect.lat"]
    if rng.random() < 0.2:
        tapes["disconnect.lat"] = [rng.choice([1, 3])]
        tapes["mqtt.disconnect.lat"] = tapes["disconnect.lat"]
    if rng.random() < 0.1:
        tapes["exec.cancel_skips"] = [rng.choice([0, 1]) for _ in range(6)]
    cfg = {"kind": kind, "init": init, "image": rand_snap(rng), "body": body, "duration": dur,
           "reenter": rng.random() < 0.3, "reenter_for": rng.choice([0, 0.5, 2.5, 901.5])}
    if body == "lines":
        # how long after the last received message the context is left: anything that the messages set in motion
        # (a deferred save, a timer) may be in flight at that moment
        cfg["post_delay"] = rng.choice([0.25, 0.25, 1.5, 4.5, 9.5, 10.0, 10.5, 11.5, 12.5, 15.5, 30.5, 60.5, 61.5, 300.5])
    if rng.random() < 0.06 and not any(k for k in tapes if "fail" in k):
        # the application cancels / times out the task that is entering the context while connect() is pending
        lat = rng.choice([2, 5])
        tapes["connect.lat"] = [lat]
        tapes["mqtt.connect.lat"] = [lat]
        cfg["cancel_at"] = rng.choice([0.5, 1.0, 1.5])
        cfg["reenter"] = False
    elif rng.random() < 0.04 and body == "sleep" and dur >= 2.5 and not any(k for k in tapes if "fail" in k) \
            and "connect.lat" not in tapes:
        cfg["cancel_at"] = dur - 1.0  # cancelled inside the body: the exit path must still run completely
        cfg["cancel_in_body"] = True
        cfg["reenter"] = False
    if rng.random() < 0.08 and not any(k for k in tapes if "fail" in k) and "cancel_at" not in cfg:
        # the LINK dies while the application is inside the context (connection reset, broker gone, read error): the
        # application sees the transport error from listen() and leaves - by letting it propagate or after catching it.
        # Leaving must still disconnect the transport, save, and leave nothing running.
        cfg["link_failure"] = rng.choice(["propagate", "caught"])
    elif rng.random() < 0.08 and not any(k for k in tapes if "fail" in k) and "cancel_at" not in cfg:
        # the disk fails during the first session (outside this property's fault space: nothing is demanded of that
        # session); the SECOND session on the same gateway object, with a healthy disk, must satisfy the property
        cfg["disk_fault"] = [rng.choice(["write", "open", "close"]), rng.randint(1, 4), rng.choice(["ENOSPC", "EIO"])]
        cfg["reenter"] = True
        cfg["reenter_for"] = rng.choice([2.5, 901.5, 1801.5])
        cfg["body"], cfg["duration"] = "sleep", rng.choice([0.5, 2.5, 950.5, 1900.5])
    return {"cfg": cfg, "lines": lines, "tapes": tapes}


class World:
    def __init__(self, tapes):
        self.loop = new_loop(step_cap=2_000_000)
        self.tapes = Tapes(tapes)
        self.elog = EventLog()
        self.faults = Counter()
        self.writes = []
        self.on_write_enter = None
        self.disk = SimDisk(self)
        self.loop.exec_latency = lambda: self.tapes.next("exec.lat", 0)
        self.loop.exec_cancel_skips = lambda: self.tapes.next("exec.cancel_skips", 0)

    def log(self, actor, kind, *args):
        return self.elog.add(self.loop.time(), actor, kind, *args)


def run(scn) -> RunResult:
    res = RunResult()
    cfg = scn["cfg"]
    old_serial = _serial_mod.open_serial_connection
    old_client = _mq.AsyncioClient
    with gc_paused():
        w = World(scn.get("tapes"))
        fs = patched_fs(w.disk)
        fs.__enter__()
        try:
            _run(scn, cfg, w, res)
        finally:
            fs.__exit__(None, None, None)
            _serial_mod.open_serial_connection = old_serial
            _mq.AsyncioClient = old_client
            res.digest = w.elog.digest()
            res.vt = w.loop.time()
            res.steps = w.loop.steps
            res.faults.update(w.faults)
            w.loop.shutdown()
    return res


def _run(scn, cfg, w, res):
    loop = w.loop
    kind = cfg["kind"]
    res.probes[f"kind_{kind}"] += 1
    peer = broker = None
    if kind == "sim":
        transport = SimTransport(w)
    elif kind == "tcp":
        peer = SimPeer(w)
        install_network(w, peer)
        transport = TCPTransport("gw.sim", 5003)
    elif kind == "serial":
        peer = SimPeer(w)
        _serial_mod.open_serial_connection = make_open_serial_connection(w, peer)
        transport = SerialTransport("/dev/ttySIM0")
    else:
        broker = SimBroker(w)
        _mq.AsyncioClient = make_client_class(broker)
        transport = _mq.MQTTClient("broker.sim")
    init_snap = {}
    if cfg["init"] == "image":
        init_snap = snapshot(build_nodes(cfg["image"]))
        w.disk.files[PATH] = bytearray(native_image(init_snap).encode())
    elif cfg["init"] == "empty":
        w.disk.files[PATH] = bytearray()
    else:
        res.probes["missing_file_on_entry"] += 1
    if cfg.get("disk_fault"):
        kind_f, nth, err_f = cfg["disk_fault"]
        w.disk.fault_on[kind_f] = [0] * (nth - 1 + (3 if kind_f != "write" else 0)) + [err_f]
    gw = Gateway(transport, Config(persistence_file=PATH))
    # ---- observation of saves ----
    saves = []  # dict(start, end, snap, image, opened)

    def on_submit(func):
        if isinstance(func, functools.partial) and getattr(func.func, "__self__", None) is w.disk:
            mode = func.keywords.get("mode", "r")
            if "w" in mode:
                # A save is "background" unless the task that entered the context issues it itself
                # before the body starts (file created for a missing file) or after the body ended
                # (final save).  No name of the library's saver is involved.
                cur = asyncio.current_task()
                own = cur is st.get("task") and (st["entered"] is None or st["exit_begin"] is not None)
                rec = {"start": loop.time(), "end": None, "snap": snapshot(gw.nodes), "image": None,
                       "opened": None, "wrote": None, "by_saver": not own, "rid": None}
                saves.append(rec)
                w.log("harness", "save-start", len(saves))

                rec["stage"] = "open"

                def opener():
                    f = func()
                    raw = getattr(getattr(f, "buffer", None), "raw", None)
                    rec["rid"] = getattr(raw, "rid", None)
                    rec["opened"] = loop.time()
                    rec["file"] = f
                    return f

                return opener
        inner = getattr(func, "func", func)
        target = getattr(inner, "__self__", None)
        if target is not None:
            for rec in saves:
                if rec.get("file") is target and rec["end"] is None:
                    name = getattr(inner, "__name__", "")
                    if name in ("write", "close", "__exit__"):
                        rec["stage"] = "write" if name == "write" else "close"
        return None

    loop.on_exec_submit = on_submit
    orig_log = w.disk._log

    def disk_log(*ev):
        orig_log(*ev)
        if ev[0] in ("write", "close") and saves:
            rid = ev[-1]
            for s in saves:
                if s["rid"] == rid and s["rid"] is not None and s["end"] is None:
                    if ev[0] == "write":
                        s["wrote"] = loop.time()
                    else:
                        s["end"] = loop.time()
                        s["image"] = w.disk.image(PATH)

    w.disk._log = disk_log
    st = {"entered": None, "loaded": None, "exit_begin": None, "exc": None, "done": False, "at_exit": None,
          "body_exc": None}

    async def body():
        if cfg["body"] == "lines":
            gen_ = gw.listen()
            last = 0.0
            for at, line in scn["lines"]:
                await asyncio.sleep(at)
                transport.inbox.put_nowait(("line", line))
                try:
                    await gen_.__anext__()
                except AIOMySensorsError:
                    gen_ = gw.listen()
            await gen_.aclose()
            await asyncio.sleep(cfg.get("post_delay", 0.25))
        else:
            if cfg["duration"]:
                await asyncio.sleep(cfg["duration"])
            if cfg["body"] == "raise":
                st["body_exc"] = BodyError("body failed")
                raise st["body_exc"]
        if cfg.get("link_failure"):
            if kind == "sim":
                transport.inbox.put_nowait(("err", "TransportFailedError"))
            elif kind in ("tcp", "serial"):
                peer.reset()
            else:
                broker.drop_connection()
            w.log("harness", "link-failure", kind)
            g2 = gw.listen()
            try:
                await asyncio.wait_for(g2.__anext__(), 50)
                st["link_error"] = "none"
            except asyncio.TimeoutError:
                st["link_error"] = "timeout"
            except AIOMySensorsError as err:
                st["link_error"] = type(err).__name__
                if cfg["link_failure"] == "propagate":
                    st["body_exc"] = err
                    raise

    async def main():
        try:
            async with gw:
                st["entered"] = loop.time()
                st["loaded"] = snapshot(gw.nodes)
                w.log("harness", "entered")
                try:
                    await body()
                finally:
                    st["exit_begin"] = loop.time()
                    st["at_exit"] = snapshot(gw.nodes)
                    st["saves_at_exit"] = len(saves)
                    st["saver_saves_at_exit"] = sum(1 for s in saves if s["by_saver"])
                    st["open_save_at_exit"] = dict(saves[-1]) if saves and saves[-1]["end"] is None else None
                    w.log("harness", "exit-begin")
        except BaseException as exc:  # noqa: BLE001
            st["exc"] = exc
            w.log("harness", "context-raised", type(exc).__name__)
        # what is still running at the very moment the context has been left (or entering it has failed): a task that
        # finishes a little later on its own is a leftover all the same
        me = asyncio.current_task()
        st["tasks_at_return"] = sorted({getattr(x.get_coro(), "__qualname__", "?") for x in asyncio.all_tasks()
                                        if x is not me and not x.done()})
        st["done"] = True

    t = loop.create_task(main())
    st["task"] = t
    if cfg.get("cancel_at") is not None:
        # main() catches BaseException itself, so the CancelledError shows up in st["exc"]
        conn = (scn.get("tapes", {}).get("connect.lat") or [0])[0] if cfg.get("cancel_in_body") else 0

        def do_cancel():
            # where the cancellation lands is decided by the run, not by the generator's arithmetic
            st["cancel_phase"] = ("connecting" if st["entered"] is None else
                                  "body" if st["exit_begin"] is None else "exiting") if not st["done"] else "after"
            t.cancel()

        loop.call_later(cfg["cancel_at"] + st_offset(scn) + conn, do_cancel)
    loop.run_until_idle(40 * 86400)
    loop.on_exec_submit = None
    # faults are the ones that actually fired (a minimised tape may hold zeroes or nothing)
    connect_fault = bool(w.faults.get("connect_fail") or w.faults.get("mqtt_connect_fail")
                         or w.faults.get("mqtt_subscribe_fail"))
    disconnect_fault = kind == "sim" and bool(w.faults.get("disconnect_fail"))
    cancel_phase = st.get("cancel_phase")
    if cancel_phase == "connecting":
        res.probes["cancelled_while_connecting"] += 1
    elif cancel_phase == "body":
        res.probes["cancelled_in_body"] += 1
    if not st["done"]:
        res.violate(PROP, "context-completes", "hang", f"main task never finished; vt={loop.time()}")
        t.cancel()
        loop.run_until_idle(0)
        return
    exc = st["exc"]
    if cfg.get("disk_fault"):
        fired = any(k.startswith("disk_") for k in w.faults)
        w.disk.fault_on.clear()
        if fired:
            res.probes["disk_fault_in_first_session"] += 1
            _second_session(scn, cfg, w, gw, kind, res, after_disk_fault=True)
            res.nontrivial_key = "C16:" + w.elog.digest()[:24]
            return
    if cancel_phase == "exiting":
        # the application cancelled the task while the exit path itself was running (only a minimised or hand-made
        # scenario gets here): a second exception thrown into __aexit__ is outside the statement, nothing is demanded
        res.probes["cancelled_while_exiting"] += 1
        return
    # ---- leftovers ----
    if st.get("tasks_at_return") and cancel_phase is None:
        res.violate(PROP, "no-task-left-running",
                    f"at-return:{','.join(n.split('.')[-1] for n in st['tasks_at_return'])}",
                    f"tasks still pending when the context manager returned: {st['tasks_at_return']}")
    loop.run_until_idle(0)
    left = [x for x in loop.pending_tasks()]
    where = "after-connect-failure" if st["entered"] is None else ("after-disconnect-failure" if disconnect_fault else "after-exit")
    if left:
        names = sorted({getattr(x.get_coro(), "__qualname__", "?") for x in left})
        res.violate(PROP, "no-task-left-running", f"{where}:{','.join(n.split('.')[-1] for n in names)}",
                    f"{len(left)} task(s) still pending: {names}")
    if loop.unhandled:
        for u in loop.unhandled:
            res.violate(PROP, "no-task-left-running", f"unhandled-in-loop:{u['exc']}", str(u))
    # ---- connect failure ----
    if st["entered"] is None and cancel_phase == "connecting":
        if not isinstance(exc, asyncio.CancelledError):
            res.violate(PROP, "connect-failure-propagates", f"cancellation-replaced-by:{type(exc).__name__ if exc else None}", repr(exc)[:200])
        res.nontrivial_key = "C16:" + w.elog.digest()[:24]
        return
    if st["entered"] is None:
        res.probes["connect_failed"] += 1
        if exc is None:
            res.violate(PROP, "connect-failure-propagates", "no-exception", "")
        elif not connect_fault:
            site = "load" if isinstance(exc, AIOMySensorsError) else type(exc).__name__
            res.violate(PROP, "entry", f"failed-without-fault:{site}", repr(exc)[:300])
        elif not isinstance(exc, TransportError):
            res.violate(PROP, "connect-failure-propagates", f"wrong-error:{type(exc).__name__}", repr(exc)[:300])
        res.nontrivial_key = "C16:" + w.elog.digest()[:24]
        return
    if connect_fault:
        res.violate(PROP, "connect-failure-propagates", "entered-despite-fault", "")
    # ---- entry loads the image ----
    if st["loaded"] != init_snap:
        res.violate(PROP, "entry-loads-file", "registry-differs", f"image {init_snap} loaded {st['loaded']}"[:400])
    # ---- exception seen by the caller ----
    if cfg["body"] == "raise":
        res.probes["body_raised"] += 1
    want = "body" if st["body_exc"] is not None else ("disconnect" if disconnect_fault else None)
    if cfg.get("link_failure"):
        res.probes["link_failed_inside_context"] += 1
    if cancel_phase in ("body", "exiting") and isinstance(exc, asyncio.CancelledError):
        exc = None  # the cancellation was requested by the application inside the body
    if cancel_phase == "exiting":
        want_any = True  # cancelled while the exit path was running: which error wins is not specified
    else:
        want_any = False
    if disconnect_fault:
        res.probes["disconnect_failed"] += 1
    if want_any:
        pass
    elif want is None and exc is not None:
        res.violate(PROP, "exit-exception", f"unexpected:{type(exc).__name__}:{_phase(st, saves)}", repr(exc)[:300])
    elif want == "body" and exc is not st["body_exc"]:
        ok = disconnect_fault and isinstance(exc, TransportError)
        if not ok:
            res.violate(PROP, "exit-exception", f"body-error-replaced-by:{type(exc).__name__}:{_phase(st, saves)}", repr(exc)[:300])
    elif want == "disconnect" and not isinstance(exc, TransportError):
        res.violate(PROP, "exit-exception", f"disconnect-error-replaced-by:{type(exc).__name__ if exc else None}", repr(exc)[:300])
    # ---- disconnect happened ----
    if kind == "sim":
        dcalls = transport.disconnect_calls
    elif kind in ("tcp", "serial"):
        # close() calls made on the stream (a stream that the peer already reset still has to be closed by us)
        dcalls = getattr(peer.transport, "close_calls", 0) if peer.transport is not None else 1
    else:
        dcalls = broker.disconnects
    if dcalls < 1:
        res.violate(PROP, "exit-disconnects", "not-disconnected", kind)
    # ---- exit phase probes ----
    ph = _phase(st, saves)
    res.probes[{"not-started": "exit_before_saver_started", "in-open": "exit_inside_open", "in-write": "exit_inside_write",
                "in-close": "exit_inside_close", "sleeping": "exit_while_saver_sleeping"}[ph]] += 1
    # ---- final image == registry at exit ----
    final_image = w.disk.image(PATH)
    checks = [("final", final_image, st["at_exit"], ph)]
    # ---- every completed save's image parses to the registry as of that save's start ----
    # (an open that is followed by a close without any write is the debris of a save that was
    #  cancelled while opening, not a completed save)
    done_saves = [s for s in saves if s["end"] is not None and s["wrote"] is not None]
    for k, s in enumerate(done_saves[:3] + done_saves[-3:]):
        checks.append((f"save", s["image"], s["snap"], ""))
    for label, image, want_snap, extra in checks:
        if image is None:
            res.violate(PROP, f"{label}-image", f"file-missing:{extra}", "")
            continue
        w.disk.files["/sim/check.json"] = bytearray(image)
        loaded: dict = {}
        tt = loop.create_task(Persistence(loaded, "/sim/check.json").load())
        w.tapes = Tapes({})
        loop.run_until_idle(10)
        if not tt.done() or task_exc(tt) is not None:
            res.violate(PROP, f"{label}-image", f"unreadable:{extra}", f"{task_exc(tt) if tt.done() else 'hang'!r}"[:300])
        elif snapshot(loaded) != want_snap:
            res.violate(PROP, f"{label}-image", f"differs-from-registry:{extra}",
                        f"want {want_snap} got {snapshot(loaded)}"[:500])
    if st["at_exit"] != st["loaded"]:
        res.probes["registry_changed_in_body"] += 1
    # ---- a save completes after entry; cadence ----
    periodic = [s for s in saves[: st["saves_at_exit"]] if s["by_saver"] and s["end"] is not None
                and s["wrote"] is not None and s["end"] <= st["exit_begin"]]
    inside = st["exit_begin"] - st["entered"]
    max_lat = max([0] + [x for x in scn.get("tapes", {}).get("exec.lat", []) if isinstance(x, (int, float))])
    slack = 4 * max_lat + 1
    if inside > slack and not periodic:
        res.violate(PROP, "saves-once-entered", "no-save-completed", f"{inside}s inside the context, saves={saves[:2]}")
    for a, b in zip(periodic, periodic[1:]):
        gap = b["start"] - a["end"]
        if gap > 900.0001:
            res.violate(PROP, "save-cadence", "gap-over-900s", f"{gap}s between save end {a['end']} and next start {b['start']}")
            break
    if periodic and st["exit_begin"] - periodic[-1]["end"] > 900 + slack:
        res.violate(PROP, "save-cadence", "saver-stopped", f"last save ended {periodic[-1]['end']}, exit at {st['exit_begin']}")
    if len(periodic) >= 96:
        res.probes["periodic_saves_96"] += 1
    # ---- nothing keeps running after exit: no task AND no timer that would save again later ----
    n_ev = len(w.disk.journal)
    loop.run_until_idle(1900)
    if loop.pending_tasks() or len(w.disk.journal) != n_ev:
        res.violate(PROP, "no-task-left-running", "activity-after-exit",
                    f"tasks={len(loop.pending_tasks())} disk events after exit={w.disk.journal[n_ev:n_ev + 4]}")
    if cfg.get("reenter") and exc is None:
        _second_session(scn, cfg, w, gw, kind, res)
    res.ops = len(saves) + len(scn["lines"]) + 2
    if ph != "sleeping" or w.faults or len(periodic) >= 2:
        res.nontrivial_key = "C16:" + w.elog.digest()[:24]
    res.states.add(("C16", kind, ph, cfg["body"], bool(exc)))


def st_offset(scn) -> float:
    """Virtual time that passes before the body starts (load jobs + connect latency), for body-relative instants."""
    lat = scn.get("tapes", {}).get("exec.lat", [])
    off, last = 0.0, 0.0
    for k in range(3):  # open, read, close of the load (jobs complete in submission order)
        last = max(last, off + (lat[k] if k < len(lat) else 0))
        off = last
    return off


def _second_session(scn, cfg, w, gw, kind, res, after_disk_fault=False):
    """Enter the SAME gateway object again (a caller's reconnect loop) on a healthy disk and link."""
    loop = w.loop
    res.probes["second_context_on_same_gateway"] += 1
    w.tapes = Tapes({"exec.lat": [1, 0, 1, 0, 1]})
    if kind in ("tcp", "serial"):
        peer2 = SimPeer(w, "peer2")
        install_network(w, peer2)
        _serial_mod.open_serial_connection = make_open_serial_connection(w, peer2)
    from aiomysensors.model.node import Node as _Node
    st2 = {"exc": None, "done": False, "entered": None, "left": None}
    saves2 = []

    def on_submit(func):
        if isinstance(func, functools.partial) and getattr(func.func, "__self__", None) is w.disk:
            if "w" in func.keywords.get("mode", "r"):
                saves2.append(loop.time())
        return None

    loop.on_exec_submit = on_submit

    async def again():
        try:
            async with gw:
                st2["entered"] = loop.time()
                await asyncio.sleep(0.5)
                gw.nodes[77] = _Node(77, 17, "2.2")
                await asyncio.sleep(cfg.get("reenter_for", 2.5))
                st2["left"] = loop.time()
        except BaseException as e2:  # noqa: BLE001
            st2["exc"] = e2
        st2["done"] = True

    t2 = loop.create_task(again())
    loop.run_until_idle(5000)
    loop.on_exec_submit = None
    tag = ":after-disk-fault" if after_disk_fault else ""
    if not st2["done"]:
        res.violate(PROP, "second-context", "hang" + tag, "")
        t2.cancel()
        loop.run_until_idle(0)
        return
    if st2["exc"] is not None:
        res.violate(PROP, "second-context", f"raised:{type(st2['exc']).__name__}{tag}", repr(st2["exc"])[:200])
        return
    left2 = loop.pending_tasks()
    if left2:
        names = sorted({getattr(x.get_coro(), "__qualname__", "?").split(".")[-1] for x in left2})
        res.violate(PROP, "no-task-left-running", f"after-second-exit:{','.join(names)}{tag}", "")
    inside = [x for x in saves2 if st2["entered"] is not None and st2["entered"] <= x <= st2["left"]]
    if st2["left"] - st2["entered"] > 5 and not inside:
        res.violate(PROP, "saves-once-entered", "no-save-in-second-context" + tag, f"saves at {saves2}")
    if st2["left"] - st2["entered"] > 905 and len(inside) < 2:
        res.violate(PROP, "save-cadence", "no-periodic-save-in-second-context" + tag, f"saves at {saves2}")
    img = w.disk.image(PATH)
    w.disk.files["/sim/check.json"] = bytearray(img or b"")
    loaded2: dict = {}
    tt = loop.create_task(Persistence(loaded2, "/sim/check.json").load())
    w.tapes = Tapes({})
    loop.run_until_idle(10)
    if not tt.done() or task_exc(tt) is not None or snapshot(loaded2) != snapshot(gw.nodes):
        res.violate(PROP, "final-image", "differs-from-registry:second-context" + tag,
                    f"want {sorted(gw.nodes)} got {sorted(loaded2) if tt.done() and not task_exc(tt) else tt}")


def _phase(st, saves) -> str:
    """Where was the saver when the body ended?"""
    n = st.get("saver_saves_at_exit", 0)
    if n == 0:
        return "not-started"
    s = st.get("open_save_at_exit")
    if s is None:
        return "sleeping"
    return {"open": "in-open", "write": "in-write", "close": "in-close"}[s.get("stage", "open")]

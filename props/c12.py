"""C12 — send never silently discards a message.

The application sends every command x type number x buffering flag to
destinations that are unknown / awake / sleeping under five protocol versions;
then the destination wakes; then the world runs to quiescence.  Exactly one of:
(a) the reference-encoded line was written during the call, (b) the
destination was sleeping, nothing was written during the call and the line is
written at that node's next wake, (c) an AIOMySensorsError was raised.
"""

from __future__ import annotations

import random
from collections import Counter

from vsim import gen as G
from vsim.core import RunResult, Tapes
from vsim.gw import GwWorld, gc_paused
from vsim.gwrun import restore_nodes
from vsim.model import INTERNAL_MAX, classify_line, encode

PROP = "C12"
LEVEL = "exploration"
LEVEL_TEXT = ("For each (protocol, destination state, command, type, buffering flag, ack) the three-way outcome of "
              "Gateway.send is observed on the simulated transport across the call, the destination's next wake and "
              "quiescence. The finite grid 5 protocols x 3 destination states x 5 commands x all type numbers of the "
              "protocol (+2 outside) x 2 flags is swept completely in the thorough tier, seeded slice in quick; "
              "non-Message objects must be rejected as invalid messages. Also: batches held for a sleeping node across "
              "write faults, traffic (incl. value requests and internal commands for the same node), a protocol switch and "
              "a re-entry of the context; and 2-4 overlapping send calls with suspending / failing "
              "writes and cancelled senders (a call that returns normally has handed its line over or parked it).")
LEVEL_NOTE = ("Trusted: 'message the codec accepts' is read as 'its encoding is a MUST-ACCEPT line of C02'; under 1.x a "
              "command held for a (restored) sleeping node cannot be observed leaving, because 1.x has no wake signal.")
TECHNIQUE = "deterministic simulation: outcome trichotomy observed across call, next wake and quiescence"
RULE = ("case = (protocol, destination unknown/awake/sleeping, command, type, buffer flag, ack, payload); non-trivial "
        "iff command != set or destination sleeping; distinct = distinct case")
REAL = ["aiomysensors.Gateway.send", "get_outgoing_message_handler", "outgoing handlers", "sleep buffer flush"]
STUB = ["event loop (SimLoop)", "transport (SimTransport)"]
ASSUMPTIONS = ["codec acceptance per the C02 recogniser"]
REQUIRED_PROBES = ["cmd0", "cmd1", "cmd2", "cmd3", "cmd4", "dest_sleeping", "dest_unknown", "dest_awake",
                   "held_then_released", "written_at_once", "not_a_message", "stateful_prehistory",
                   "batch_with_write_fault"]
SHRINK_LISTS = ("cases", "pre", "conc", "tapes")
SET_TYPES = 57
PRES_TYPES = 40


def grid():
    out = []
    for proto in G.PROTOS:
        for dest in ("unknown", "awake", "sleeping"):
            for cmd in range(5):
                if cmd == 3:
                    types = list(range(-1, INTERNAL_MAX[proto] + 2))
                elif cmd == 4:
                    types = list(range(-1, 7))
                elif cmd == 0:
                    types = [0, 3, 17, 18, 39]
                else:
                    types = [0, 2, 3, 24, 47, 56]
                for t in types:
                    for buf in (True, False):
                        out.append((proto, dest, cmd, t, buf))
    return out


GRID = grid()


def budget(tier):
    return 10000 if tier == "quick" else len(GRID) + 1_000_000


def wall(tier):
    return 90 if tier == "quick" else 1500


def gen(seed: int, i: int, tier: str) -> dict:
    rng = random.Random(f"C12:{seed}:{i}")
    if tier == "thorough" and i < len(GRID):
        proto, dest, cmd, t, buf = GRID[i]
        ncases = 1
        cases = [[dest, cmd, t, buf, 0, "1"]]
    else:
        proto = rng.choice(G.PROTOS)
        cases = []
        for _ in range(rng.randint(1, 6)):
            g = GRID[rng.randrange(len(GRID))]
            if g[0] != proto:
                g = (proto,) + g[1:]
            t = g[3]
            if g[2] == 3 and t > INTERNAL_MAX[proto] + 1:
                t = INTERNAL_MAX[proto] + 1
            cases.append([g[1], g[2], t, g[4], rng.choice([0, 1]), G.payload(rng, semi=True)])
        if rng.random() < 0.15:
            cases.append(["awake", "raw", rng.choice(["str", "none", "int", "dict", "tuple"]), True, 0, ""])
    pre = []
    if proto in G.PROTOS_2X and rng.random() < 0.6:
        # incoming traffic first: missing-node episodes leave 'presentation requested' markers behind,
        # wakes leave nodes sleeping, parked commands sit in the buffer
        for _ in range(rng.randint(1, 5)):
            n = rng.choice([50, 50, 1, 2, 60])
            pre.append(rng.choice([f"{n};1;1;0;0;20.5\n", f"{n};255;3;0;0;55\n", f"{n};3;2;0;2;\n",
                                   f"{n};255;3;0;11;sk\n", G.wake_line(proto, rng.choice([1, 2]), 3)]))
        if rng.random() < 0.3:
            pre.append(rng.choice(["@reenter", f"0;255;3;0;2;{proto}\n", f"0;255;0;0;18;{proto}.1\n"]))
        if rng.random() < 0.7:
            for _ in range(rng.randint(1, 3)):
                t = rng.choice([19, 19, 18, 13, 20, 24])
                cases.append([rng.choice(["unknown", "unknown", "awake", "sleeping"]), 3, t, rng.random() < 0.8, 0, ""])
    scn = {"cfg": {"pin": proto}, "pre": pre, "cases": cases}
    if proto in G.PROTOS_2X and rng.random() < 0.25:
        # several messages held for the sleeping node, then a wake during which transport writes fail
        scn["batch"] = [[2, rng.choice([0, 1]), 1, 0, t, f"b{k}"] for k, t in enumerate(rng.sample([0, 2, 3, 24, 47], rng.randint(2, 4)))]
        if rng.random() < 0.5:
            # other commands for the same node / child / type in between: they may be written at once or held, but may not
            # displace a held set command (nor be displaced by one)
            for _ in range(rng.randint(1, 3)):
                f = list(rng.choice(scn["batch"]))
                kind = rng.choice(["req", "req", "internal"])
                g = [f[0], f[1], 2, 0, f[4], ""] if kind == "req" else [f[0], 255, 3, 0, rng.choice([13, 18, 19]), ""]
                scn["batch"].insert(rng.randint(0, len(scn["batch"])), g)
        scn["tapes"] = {"w.fail.set": [rng.choice([0, 1, 2]) for _ in range(3)]}
        if rng.random() < 0.4:
            scn["switch_to"] = rng.choice([p for p in G.PROTOS_2X if p != proto])
        scn["reenter_while_held"] = rng.random() < 0.3
        scn["noise"] = [rng.choice(["0;255;3;0;14;Gateway startup complete.\n", "0;255;3;0;9;log\n", f"0;255;3;0;2;{proto}\n",
                                    "9;255;0;0;17;2.0\n", "255;255;3;0;3;\n", "2;0;0;0;3;c\n", "2;1;1;0;2;1\n",
                                    "2;255;3;0;0;50\n", "2;0;2;0;47;\n", "1;255;3;0;6;\n"])
                        for _ in range(rng.randint(0, 4))]
    if "batch" not in scn and rng.random() < 0.2:
        # several application tasks send at the same time while transport writes suspend, fail or the sender is
        # cancelled: a send that returns normally has handed its line over (or parked it), whoever else failed
        k = rng.randint(2, 4)
        senders = []
        for j in range(k):
            dest = rng.choice([1, 1, 1, 2, 50])
            if rng.random() < 0.75:
                f = [dest, rng.choice([0, 1]), 1, rng.choice([0, 1]), rng.choice([2, 3, 24, 47]), f"u{j}"]
            else:
                f = [dest, 255, 3, 0, rng.choice([13, 18, 19, 24][: 4 if proto in G.PROTOS_2X else 2]), ""]
                f[5] = f"u{j}" if f[4] == 24 else ""
            senders.append([rng.choice([0, 0, 0.5, 1, 1.5, 2]), f, rng.random() < 0.8,
                            rng.choice([None, None, None, 0.5, 1.5])])
        scn["conc"] = senders
        scn["tapes"] = {"w.lat": [rng.choice([0, 1, 2, 3]) for _ in range(k + 1)],
                        "w.fail.set": [rng.choice([0, 0, 1, 2]) for _ in range(rng.randint(0, 2))],
                        "w.fail.other": [rng.choice([0, 0, 1, 2]) for _ in range(rng.randint(0, 2))]}
    return scn


RAW = {"str": "1;0;1;0;2;1\n", "none": None, "int": 7, "dict": {"node_id": 1}, "tuple": (1, 0, 1, 0, 2, "1")}
DEST = {"unknown": 50, "awake": 1, "sleeping": 2}


def run(scn) -> RunResult:
    res = RunResult()
    proto = scn["cfg"]["pin"]
    is2x = proto in G.PROTOS_2X
    with gc_paused():
        w = GwWorld({"pin": proto}, {})
        try:
            if scn.get("batch"):
                _batch(scn, proto, res)
            if scn.get("conc"):
                _concurrent(scn, proto, res)
            restore_nodes(w.gateway, {
                "1": {"type": 17, "version": proto, "children": {"0": {"type": 3, "desc": "c"}}},
                "2": {"type": 17, "version": proto, "sleeping": True, "children": {"0": {"type": 3, "desc": "c"}}},
            })
            keys = []
            for line in scn.get("pre", []):
                if line == "@reenter":
                    w.reenter()
                    continue
                w.listen_step(line)
                res.probes["stateful_prehistory"] += 1
            for k, (dest, cmd, t, buf, ack, p) in enumerate(scn["cases"]):
                res.ops += 1
                if cmd == "raw":
                    obs = w.send_step(None, buf, raw=RAW[t])
                    res.probes["not_a_message"] += 1
                    if not (obs.kind == "err" and obs.cls == "InvalidMessageError"):
                        res.violate(PROP, "non-message-rejected", f"{t}:{obs.kind}:{obs.cls}",
                                    f"send({RAW[t]!r}) -> {obs.kind} {obs.cls} writes={obs.writes}")
                    continue
                n = DEST[dest]
                c = 255 if cmd in (3, 4) or (cmd == 0 and k % 2 == 0) else 0
                f = (n, c, cmd, ack, t, p)
                line = encode(f)
                if classify_line(line)[0] != "accept":
                    continue
                res.probes[f"cmd{cmd}"] += 1
                res.probes[f"dest_{dest}"] += 1
                sleeping = bool(w.gateway.nodes.get(n) and w.gateway.nodes[n].sleeping)
                obs = w.send_step(f, buf)
                during = [ln for ln, ok in obs.writes if ok]
                site_case = f"cmd{cmd}:{'buffered' if buf else 'unbuffered'}:{dest}"
                keys.append((dest, cmd, t, buf))
                if obs.kind == "err":
                    if not obs.is_lib_error:
                        res.violate(PROP, "raises-only-library-errors", f"{obs.cls}:cmd{cmd}", f"{proto} send{f} buffer={buf}")
                    if during:
                        res.violate(PROP, "exactly-one-outcome", f"raised-and-written:{site_case}", f"{f} {obs.cls} {during}")
                    continue
                if obs.kind != "ok":
                    res.violate(PROP, "exactly-one-outcome", f"{obs.kind}:{site_case}", f"{proto} send{f}")
                    continue
                if during:
                    if during != [line]:
                        res.violate(PROP, "exactly-one-outcome", f"wrong-line-written:{site_case}",
                                    f"{proto} send{f}: want {line!r} got {during!r}")
                    else:
                        res.probes["written_at_once"] += 1
                    after = []
                else:
                    after = None
                # the destination wakes (2.x has a wake signal; 1.x has none)
                if is2x and sleeping:
                    o2 = w.listen_step(G.wake_line(proto, n, 5))
                    woke = [ln for ln, ok in o2.writes if ok]
                    o3 = w.listen_step(G.wake_line(proto, n, 6))
                    woke2 = [ln for ln, ok in o3.writes if ok]
                else:
                    woke, woke2 = [], []
                if during:
                    if line in woke + woke2:
                        res.violate(PROP, "exactly-one-outcome", f"written-twice:{site_case}", f"{proto} send{f}")
                    continue
                # nothing written during the call and no error
                if not sleeping:
                    res.violate(PROP, "never-silently-discarded", f"dropped:{site_case}",
                                f"{proto} send{f} buffer={buf}: returned normally, nothing written, destination not sleeping")
                elif not is2x:
                    res.relaxations["held-under-1x-unobservable"] += 1
                elif woke.count(line) == 1 and line not in woke2:
                    res.probes["held_then_released"] += 1
                else:
                    res.violate(PROP, "never-silently-discarded", f"held-never-released:{site_case}",
                                f"{proto} send{f} buffer={buf}: parked for sleeping node, wake wrote {woke} then {woke2}")
        finally:
            import hashlib
            res.digest = hashlib.sha256(("".join(getattr(res, "subdigests", [])) + w.elog.digest()).encode()).hexdigest()
            res.vt += w.loop.time()  # the sub-worlds (batch, concurrent senders) have added theirs already
            res.steps += w.loop.steps
            res.faults.update(w.faults)
            w.close()
    nt = [k for k in keys if k[1] != 1 or k[0] == "sleeping"]
    if nt:
        res.nontrivial_key = ("C12", proto, tuple(nt))
    return res


def _concurrent(scn, proto, res):
    """Overlapping send calls: every call that returns normally has its line handed to the transport (during the call
    or, for a sleeping destination, at the next wake); the others raised a library error or were cancelled."""
    import asyncio
    from aiomysensors.exceptions import AIOMySensorsError
    from aiomysensors.model.message import Message
    w = GwWorld({"pin": proto}, scn.get("tapes"))
    try:
        restore_nodes(w.gateway, {
            "1": {"type": 17, "version": proto, "children": {"0": {"type": 3, "desc": "c"}, "1": {"type": 3, "desc": "c"}}},
            "2": {"type": 17, "version": proto, "sleeping": True,
                  "children": {"0": {"type": 3, "desc": "c"}, "1": {"type": 3, "desc": "c"}}},
        })
        loop = w.loop
        outcomes = {}

        async def sender(j, at, f, buf):
            await asyncio.sleep(at)
            w.log("app", "send", j)
            try:
                await w.gateway.send(Message(*f), message_buffer=buf)
                outcomes[j] = ("ok", None)
            except AIOMySensorsError as exc:
                outcomes[j] = ("err", type(exc).__name__)
            except asyncio.CancelledError:
                outcomes[j] = ("cancelled", None)
                raise
            except BaseException as exc:  # noqa: BLE001
                outcomes[j] = ("other", type(exc).__name__)
            w.log("app", "send-done", j, outcomes[j][0])

        tasks = []
        for j, (at, f, buf, cancel_after) in enumerate(scn["conc"]):
            t = loop.create_task(sender(j, at, tuple(f), buf))
            tasks.append(t)
            if cancel_after is not None:
                loop.call_later(at + cancel_after, t.cancel)
                res.probes["concurrent_sender_cancelled"] += 1
        loop.run_until_idle(200)
        w.tapes = Tapes({})  # the wakes that follow are fault-free
        for k in range(len(scn["conc"]) + 2):
            w.listen_step(G.wake_line(proto, 2, k))
        handed = [r["line"] for r in w.writes]
        overlapped = any(a["seq_start"] < b["seq_start"] < (a["seq_end"] or 10 ** 9)
                         for a in w.writes for b in w.writes if a is not b and a["seq_start"] is not None
                         and b["seq_start"] is not None)
        res.probes["concurrent_sends"] += 1
        if overlapped:
            res.probes["send_during_another_write"] += 1
        for j, (at, f, buf, cancel_after) in enumerate(scn["conc"]):
            kind, cls = outcomes.get(j, ("hang", None))
            line = encode(tuple(f))
            if kind == "other":
                res.violate(PROP, "exactly-one-outcome", f"concurrent:raised-{cls}", f"{proto} send{tuple(f)}")
            elif kind == "hang" and not tasks[j].cancelled():
                res.violate(PROP, "exactly-one-outcome", "concurrent:hang", f"{proto} send{tuple(f)}")
            elif kind == "ok" and line not in handed:
                held_1x = proto not in G.PROTOS_2X and f[0] == 2 and f[2] == 1 and buf
                # a command held for the sleeping node is replaced by a later one for the same (child, type) (C07)
                superseded = f[0] == 2 and f[2] == 1 and buf and any(
                    g[0] == 2 and g[2] == 1 and b2 and (g[1], g[4]) == (f[1], f[4]) and encode(tuple(g)) in handed
                    for j2, (_, g, b2, _) in enumerate(scn["conc"]) if j2 != j)
                if not held_1x and not superseded:
                    res.violate(PROP, "never-silently-discarded", f"dropped:cmd{f[2]}:concurrent-senders",
                                f"{proto}: send{tuple(f)} buffer={buf} returned normally, {line!r} was never handed to "
                                f"the transport; outcomes={outcomes} handed={handed}")
        res.ops += len(scn["conc"])
        res.subdigests = getattr(res, "subdigests", []) + [w.elog.digest()]
        res.faults.update(w.faults)
        res.vt += w.loop.time()
        res.steps += w.loop.steps
    finally:
        w.close()


def _batch(scn, proto, res):
    """Messages held for a sleeping node must all reach the transport exactly once, also when writes fail at a wake."""
    w = GwWorld({"pin": proto}, scn.get("tapes"))
    try:
        restore_nodes(w.gateway, {"2": {"type": 17, "version": proto, "sleeping": True,
                                        "children": {"0": {"type": 3, "desc": "c"}, "1": {"type": 3, "desc": "c"}}}})
        lines = {}
        held_count = Counter()
        for f in scn["batch"]:
            obs = w.send_step(tuple(f), True)
            if obs.kind == "ok" and not obs.writes:
                # held: the latest SET per (node, child, type) is owed once; any other held command is owed as it is
                # (once per send, or once altogether if the library coalesces identical commands)
                lines[(f[0], f[1], f[2], f[4])] = encode(tuple(f))
                if f[2] != 1:
                    held_count[encode(tuple(f))] += 1
        written = []
        failed_any = False
        for noise in scn.get("noise", []):
            w.listen_step(noise)
            res.probes["traffic_while_held"] += 1
        if scn.get("reenter_while_held"):
            # the application's reconnect loop leaves and re-enters the context on the same Gateway object
            w.reenter()
            res.probes["reenter_while_held"] += 1
        if scn.get("switch_to"):
            # the gateway was updated between parking and the wake: held messages must survive
            proto = scn["switch_to"]
            w.listen_step(f"0;255;3;0;2;{proto}.0\n")
            res.probes["protocol_switch_while_held"] += 1
        for k in range(len(scn["batch"]) + 4):
            o = w.listen_step(G.wake_line(proto, 2, k))
            written += [ln for ln, ok in o.writes if ok]
            failed_any = failed_any or any(not ok for _, ok in o.writes)
            if any(not ok for _, ok in o.writes) and not o.is_transport_error:
                res.violate(PROP, "held-messages-reach-transport", "write-failure-swallowed", f"{o.kind}:{o.cls}")
        res.probes["batch_with_write_fault" if failed_any else "batch_fault_free"] += 1
        for key, line in lines.items():
            n = written.count(line)
            if not (n == 1 or (key[2] != 1 and 1 <= n <= held_count[line])):
                res.violate(PROP, "never-silently-discarded" if n == 0 else "exactly-one-outcome",
                            f"held-then-{'lost' if n == 0 else 'repeated'}:after-write-fault" if failed_any else
                            f"held-then-{'lost' if n == 0 else 'repeated'}",
                            f"{proto}: {line!r} written {n} times over {len(scn['batch']) + 4} wakes; all writes {written}")
        res.ops += len(scn["batch"]) + 4
        res.subdigests = getattr(res, "subdigests", []) + [w.elog.digest()]
        res.faults.update(w.faults)
        res.vt += w.loop.time()
        res.steps += w.loop.steps
    finally:
        w.close()

"""C19 — a newer protocol version handles the older protocol's message types identically.

The same simulated network history (node traffic restricted to the older
protocol's type numbers, link faults, application sends, write faults with
identical tapes) is applied to two gateways pinned to an ordered pair of
versions through the public setter; the two runs are compared step by step.
"""

from __future__ import annotations

import hashlib
import random

from vsim import gen as G
from vsim.core import RunResult
from vsim.gw import GwWorld, gc_paused
from vsim.gwrun import restore_nodes

PROP = "C19"
LEVEL = "exploration"
LEVEL_TEXT = ("Differential simulation: one seeded history (received lines over the older protocol's types incl. "
              "requests, reports, unknown-node references where allowed, sends, wakes, write faults from identical "
              "tapes) is executed under both versions of every ordered pair (10 pairs) and outcome class + node_id/"
              "child_id, yielded fields, write lists with success flags and registry snapshots must be equal at every "
              "step. Every single-line history over all internal/stream type numbers of the older protocol x 3 "
              "registry states is swept in the thorough tier. Sensor and value types are drawn from the whole range the "
              "older protocol defines.")
LEVEL_NOTE = ("Across 1.x->2.x the comparison of a history ends at the first line that the older version rejects for an "
              "unknown node/child or that is a gateway-ready message (the stated precondition, decided on the run). Version-setting messages (node-0 presentation, I_VERSION) are excluded: they would equalise the pair. "
              "Across 1.x->2.x histories reference no unknown node/child and contain no gateway-ready; heartbeat "
              "response is excluded between {2.0,2.1} and 2.2 (the stated exception).")
TECHNIQUE = "deterministic simulation: differential execution of one history under two protocol versions"
RULE = ("ordered version pair + seeded history over the older protocol's types; non-trivial iff the history has >=3 "
        "lines and at least one write or error occurred; distinct = distinct (pair, op list, tapes)")
REAL = ["aiomysensors.Gateway.listen/send", "handlers of both protocol versions", "marshmallow codec"]
STUB = ["event loop (SimLoop)", "transport (SimTransport)"]
ASSUMPTIONS = ["the older version's run is the reference for the newer one"]
REQUIRED_PROBES = ["pair_1x", "pair_2x", "pair_cross", "step_with_write", "step_with_error", "send_parked",
                   "release_compared", "write_fault_compared"]
SET_MAX = {"1.4": 39, "1.5": 46, "2.0": 56, "2.1": 56, "2.2": 56}   # highest V_* number of each protocol
PRES_MAX = {"1.4": 25, "1.5": 35, "2.0": 39, "2.1": 39, "2.2": 39}  # highest S_* number of each protocol
PAIRS = [(a, b) for i, a in enumerate(G.PROTOS) for b in G.PROTOS[i + 1:]]


def budget(tier):
    return 10000 if tier == "quick" else 10 * 3 * 45 + 450_000


def wall(tier):
    return 90 if tier == "quick" else 1500


def gen(seed: int, i: int, tier: str) -> dict:
    rng = random.Random(f"C19:{seed}:{i}")
    if tier == "thorough" and i < 10 * 3 * 45:
        pair = PAIRS[i // 135]
        state = (i // 45) % 3
        k = i % 45
        old = pair[0]
        cross = old in ("1.4", "1.5") and pair[1] in G.PROTOS_2X
        line = f"1;255;3;0;{k - 1};5\n" if k < 38 else f"1;255;4;0;{k - 39};ab\n"
        ops = []
        if state >= 1 or cross:
            ops.append(["line", f"1;255;0;0;17;{old}\n"])
        if state == 2:
            ops.append(["line", "1;0;0;0;3;c\n"])
        t = k - 1
        if k < 38 and (t > G.INTERNAL_MAX[old] or t < 0 or t == 2 or (cross and t == 14)
                       or (t == 22 and "2.2" in pair and pair[0] != "2.2")):
            line = "1;255;3;0;5;1\n"
        ops.append(["line", line])
        return {"pair": list(pair), "ops": ops, "tapes": {}}
    pair = rng.choice(PAIRS)
    old, new = pair
    cross = old in ("1.4", "1.5") and new in G.PROTOS_2X
    both2x = old in G.PROTOS_2X
    nodes = rng.sample([1, 2, 3, 9, 254], rng.randint(1, 3))
    children = [0, 1, 7]
    # value and sensor types: a few common ones plus a per-history pick from the whole range the OLDER protocol knows
    types = [0, 2, 3, 24] + rng.sample(range(0, SET_MAX[old] + 1), 2)
    ctypes = [0, 3, 6] + rng.sample(range(0, PRES_MAX[old] + 1), 2)
    ops = []
    known = set()
    kids = {}
    restore = None
    if rng.random() < 0.35:
        # registry restored from persistence, some nodes flagged sleeping (the only way to sleep under 1.x)
        restore = {str(n): {"type": 17, "version": old, "sleeping": rng.random() < 0.7,
                            "children": {str(c): {"type": 3, "desc": "c"} for c in children}}
                   for n in nodes}
        known = set(nodes)
        kids = {n: set(children) for n in nodes}
    hb_ok = both2x and not ("2.2" in pair and old != "2.2")
    itypes = [t for t in range(0, G.INTERNAL_MAX[old] + 1) if t != 2 and not (cross and t == 14)
              and not (t == 22 and not hb_ok)]
    for _ in range(rng.randint(3, 30)):
        n = rng.choice(nodes)
        r = rng.random()
        if r < 0.15 or (cross and n not in known):
            ops.append(["line", f"{n};255;0;0;{rng.choice([17, 18])};{old}\n"])
            known.add(n)
            kids[n] = set()
        elif r < 0.3:
            c = rng.choice(children)
            if cross and n not in known:
                continue
            ops.append(["line", f"{n};{c};0;0;{rng.choice(ctypes)};{G.payload(rng)}\n"])
            if n in known:
                kids[n].add(c)
        elif r < 0.5:
            c = rng.choice(children)
            if cross and (n not in known or c not in kids.get(n, ())):
                continue
            cmd = rng.choice([1, 1, 2])
            ops.append(["line", f"{n};{c};{cmd};0;{rng.choice(types)};{G.payload(rng) if cmd == 1 else ''}\n"])
        elif r < 0.72:
            t = rng.choice(itypes)
            if cross and n not in known:
                continue
            p = {0: "55", 22: str(rng.randint(0, 9)), 3: "", 1: "", 6: ""}.get(t, G.payload(rng))
            if t in (0, 22) and rng.random() < 0.25:
                p = rng.choice(G.ABSURD[t])  # error paths must agree across versions as well
            src = rng.choice([n, 255]) if t == 3 else n
            ch = rng.choice([255, 255, 0, 7, 254]) if t in (3, 4) else 255  # id request/response: any child id
            ops.append(["line", f"{src};{ch};3;0;{t};{p}\n"])
            if t == 3:
                # the id request registers a placeholder node (highest id + 1): it is a known node from now on
                nxt = (max(known) + 1) if known else 1
                if nxt <= 254:
                    known.add(nxt)
                    kids.setdefault(nxt, set())
        elif r < 0.75 and both2x and not hb_ok:
            # heartbeat response between {2.0, 2.1} and 2.2: the stated exception covers only what it does to a
            # KNOWN node with a well-formed payload; from an unknown node, or with an absurd payload, the versions
            # must still agree
            if n not in known:
                ops.append(["line", f"{n};255;3;0;22;{rng.choice(['5', '1x7', '', '1.5'])}\n"])
            else:
                ops.append(["line", f"{n};255;3;0;22;{rng.choice(['1x7', '', '1.5', 'xyz'])}\n"])
        elif r < 0.78:
            if cross and n not in known:
                continue
            ops.append(["line", f"{n};255;4;0;{rng.choice([0, 1, 2, 3, 4, 5, 6])};ab\n"])
        elif r < 0.84 and hb_ok:
            if n in known:
                ops.append(["line", f"{n};255;3;0;22;{rng.randint(0, 9)}\n"])
        elif r < 0.93:
            dest = rng.choice(nodes)
            ops.append(["send", [dest, rng.choice(children), 1, 0, rng.choice(types), G.payload(rng)],
                        rng.random() < 0.85])
        elif r < 0.945:
            # the application sends an internal command (reboot, heartbeat request, presentation request ...) of a
            # type the older protocol knows, to a node that may be asleep
            t = rng.choice([13] + ([18, 19, 24, 18] if both2x else [13]))
            ops.append(["send", [rng.choice(nodes), 255, 3, 0, t, ""], rng.random() < 0.85])
        elif r < 0.96:
            ops.append(["reboot", rng.choice(nodes), True])
        else:
            ops.append(["relisten"])
    tapes = {}
    if rng.random() < 0.4:
        tapes["w.fail.set"] = [rng.choice([0, 0, 0, 1, 2]) for _ in range(6)]
        tapes["w.lat"] = [rng.choice([0, 1]) for _ in range(6)]
    scn = {"pair": list(pair), "ops": ops, "tapes": tapes}
    if restore is not None:
        scn["restore"] = restore
    if not tapes and rng.random() < 0.2:
        scn["link"] = "tcp"
        scn["tapes"] = {"link.chunk": [rng.choice([0, 1, 3, 7]) for _ in range(6)]}
    return scn


def _run_one(version, scn):
    out = []
    w = GwWorld({"pin": version, "metric": True, "link": scn.get("link", "sim")}, scn.get("tapes"))
    try:
        if scn.get("restore"):
            restore_nodes(w.gateway, scn["restore"])
        for op in scn["ops"]:
            if op[0] == "line":
                o = w.listen_step(op[1])
            elif op[0] == "send":
                o = w.send_step(op[1], op[2])
            elif op[0] == "relisten":
                w.relisten()
                out.append(None)
                continue
            elif op[0] == "reboot":
                if op[1] in w.gateway.nodes:
                    w.gateway.nodes[op[1]].reboot = bool(op[2])
                out.append(None)
                continue
            else:
                raise ValueError(op)
            out.append({"kind": o.kind, "cls": o.cls, "attrs": dict(o.attrs), "fields": o.fields,
                        "writes": [(_no_clock(ln), ok) for ln, ok in o.writes], "nodes": o.nodes})
        return out, w.elog.digest(), w.loop.time(), w.loop.steps, dict(w.faults)
    finally:
        w.close()


def _no_clock(line: str) -> str:
    """The payload of a time reply is the controller's clock (C06's business); the two runs of a pair may have spent
    different amounts of virtual time in write latencies once they differ anywhere else."""
    f = line.rstrip("\n").split(";")
    if len(f) == 6 and f[2] == "3" and f[4] == "1" and f[5].lstrip("-").isdigit():
        return ";".join(f[:5]) + ";<time>\n"
    return line


def _heartbeat(text: str) -> bool:
    f = text.split(";")
    return len(f) >= 6 and f[2].strip() == "3" and f[4].strip() == "22"


def _gateway_ready(text: str) -> bool:
    f = text.split(";")
    return len(f) >= 6 and f[2].strip() == "3" and f[4].strip() == "14"


def run(scn) -> RunResult:
    res = RunResult()
    old, new = scn["pair"]
    with gc_paused():
        a, da, vta, sa, fa = _run_one(old, scn)
        b, db, vtb, sb, fb = _run_one(new, scn)
    res.digest = hashlib.sha256((da + db).encode()).hexdigest()
    res.vt = vta + vtb
    res.steps = sa + sb
    res.faults.update(fa)
    res.ops = 2 * len(scn["ops"])
    cross = old in ("1.4", "1.5") and new in G.PROTOS_2X
    hb_exception = old in ("2.0", "2.1") and new == "2.2"
    res.probes["pair_cross" if cross else "pair_2x" if old in G.PROTOS_2X else "pair_1x"] += 1
    interesting = False
    for i, (x, y) in enumerate(zip(a, b)):
        if x is None:
            continue
        op = scn["ops"][i]
        if cross and op[0] == "line" and (x["cls"] in ("MissingNodeError", "MissingChildError")
                                          or _gateway_ready(op[1])):
            # "across 1.x to 2.x as long as no unknown node or child is referenced and no gateway-ready message
            # occurs": decided here, on the reference run, and not by the generator's prediction of the registry
            # (which id an id request hands out is not specified; a shrunk history may have lost a presentation)
            res.probes["cross_precondition_ended"] += 1
            break
        if hb_exception and op[0] == "line" and _heartbeat(op[1]) and x["kind"] == "ok" and y["kind"] == "ok":
            # the stated exception: a heartbeat response that both versions handle (known node, usable payload) marks
            # the node as sleeping and releases its commands in 2.0/2.1 but not in 2.2 - from here on the two runs
            # legitimately differ.  Decided on the run: which nodes are known is not the generator's to predict.
            res.probes["heartbeat_exception_ended_comparison"] += 1
            break
        if x["writes"]:
            res.probes["step_with_write"] += 1
            interesting = True
            if any(not ok for _, ok in x["writes"]):
                res.probes["write_fault_compared"] += 1
            if op[0] == "line" and any(ln.split(";")[2] == "1" for ln, _ in x["writes"]) and ";3;0;22;" in op[1]:
                res.probes["release_compared"] += 1
        if x["kind"] == "err":
            res.probes["step_with_error"] += 1
            interesting = True
        if op[0] == "send" and x["kind"] == "ok" and not x["writes"]:
            res.probes["send_parked"] += 1
        kindtag = f"{op[0]}" + (f":cmd{op[1].split(';')[2]}" if op[0] == "line" and op[1].count(";") >= 5 else "")
        if (x["kind"], x["cls"]) != (y["kind"], y["cls"]):
            res.violate(PROP, "same-outcome", f"{kindtag}:{x['kind']}:{x['cls']}-vs-{y['kind']}:{y['cls']}",
                        f"{old} vs {new} op#{i} {op!r}")
        elif x["attrs"] != y["attrs"]:
            res.violate(PROP, "same-outcome", f"{kindtag}:error-attrs", f"{old} {x['attrs']} vs {new} {y['attrs']} op#{i} {op!r}")
        elif x["fields"] != y["fields"]:
            res.violate(PROP, "same-yield", f"{kindtag}", f"{old} {x['fields']} vs {new} {y['fields']} op#{i} {op!r}")
        if x["writes"] != y["writes"]:
            res.violate(PROP, "same-writes", f"{kindtag}", f"{old} {x['writes']} vs {new} {y['writes']} op#{i} {op!r}")
        if x["nodes"] != y["nodes"]:
            res.violate(PROP, "same-registry", f"{kindtag}", f"op#{i} {op!r}: {old} {x['nodes']} vs {new} {y['nodes']}"[:700])
    if interesting and len(scn["ops"]) >= 3:
        res.nontrivial_key = ("C19", scn["pair"], scn["ops"], scn.get("tapes"))
    return res

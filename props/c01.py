"""C01 — wire codec round trip: encode then decode returns the same message.

Candid note (DESIGN section 4): the codec law is a pure function of (message,
protocol); no schedule, clock or fault changes its truth.  It is decided inside
the simulated system at the boundary the property names: an echo device on the
simulated link (Gateway.listen yield vs transport line, Gateway.send vs
transport write) plus MessageSchema.load/dump under all five protocols, with
the reference encoder of vsim/model.py as oracle.
"""

from __future__ import annotations

import hashlib
import random

from vsim import gen as G
from vsim.core import RunResult
from vsim.gw import GwWorld, gc_paused
from vsim.gwrun import restore_nodes
from vsim.model import classify_line, encode

from marshmallow import ValidationError  # noqa: E402
from aiomysensors.model.message import Message, MessageSchema  # noqa: E402
from aiomysensors.model.protocol import get_protocol  # noqa: E402

PROP = "C01"
LEVEL = "exploration"
LEVEL_TEXT = ("Seeded well-formed messages (all cross-field classes incl. the id-request exception, boundary ids, "
              "negative/huge types, payloads with ';' '/' ',' non-ASCII and inner blanks up to 200 chars) are pushed "
              "through dump/load under five protocols and through an echo device on the simulated transport: "
              "device line -> listen yield, send -> written line (byte-exact vs an independent encoder), echo -> "
              "equal message, canonical line -> decode -> re-send -> same line. Sampling of an infinite input space.")
LEVEL_NOTE = ("Trusted: reference encoder/recogniser in vsim/model.py. Pure input property; the simulator contributes "
              "the observation boundary (transport lines), not schedules.")
TECHNIQUE = "deterministic simulation harness (echo device on simulated transport) + reference codec as oracle"
RULE = ("messages drawn from the cross-field-valid field space x payload alphabet; non-trivial iff payload contains "
        "';' or is empty or non-ASCII, or an id is 3-digit, or the id-request exception is used; distinct = distinct "
        "(protocol, fields)")
REAL = ["MessageSchema.load/dump (marshmallow)", "Message", "Gateway.listen", "Gateway.send", "outgoing handlers"]
STUB = ["event loop (SimLoop)", "transport (SimTransport as echo device)"]
ASSUMPTIONS = ["reference codec is the oracle", "payloads contain no line terminators and no trailing whitespace"]
REQUIRED_PROBES = ["payload_with_delimiter", "payload_empty", "idrequest_exception", "three_digit_ids",
                   "listen_yielded", "send_written", "echo_roundtrip", "reencode_roundtrip", "negative_type"]
SHRINK_LISTS = ("msgs",)


def budget(tier):
    return 6000 if tier == "quick" else 150_000


def wall(tier):
    return 90 if tier == "quick" else 1500


def rand_payload(rng):
    r = rng.random()
    if r < 0.1:
        return ""
    if r < 0.45:
        return rng.choice(G.PAYLOADS_SEMI + G.PAYLOADS[1:])
    n = rng.choice([1, 2, 5, 25, 200])
    alphabet = "abcXYZ0189;;;/,.:-_ =+*#åÄö€温度λ\\\"'"
    s = "".join(rng.choice(alphabet) for _ in range(n))
    return s.rstrip()


def rand_fields(rng):
    cmd = rng.choice([0, 1, 2, 3, 4])
    node = rng.choice([0, 1, 9, 10, 99, 100, 254, 255, rng.randint(0, 255)])
    t = rng.choice([0, 1, 2, 3, 4, 5, 6, 19, 22, 47, 49, 255, 256, -1, -77, 10 ** 6, 2 ** 40, rng.randint(0, 60)])
    if cmd in (3, 4):
        child = 255
        if cmd == 3 and rng.random() < 0.35:
            t = rng.choice([3, 4])
            child = rng.choice([0, 1, 9, 10, 100, 254, 255])
    elif cmd == 0:
        child = rng.choice([255, 0, 1, 9, 10, 99, 100, 254])
    else:
        child = rng.choice([0, 1, 9, 10, 99, 100, 254, rng.randint(0, 254)])
    return [node, child, cmd, rng.choice([0, 1]), t, rand_payload(rng)]


def gen(seed: int, i: int, tier: str) -> dict:
    rng = random.Random(f"C01:{seed}:{i}")
    msgs = [rand_fields(rng) for _ in range(rng.randint(2, 12))]
    if i % 7 == 0:
        msgs.append([1, 2, 1, 0, 49, "55.722526;13.017972;18"])
    return {"cfg": {"pin": rng.choice(G.PROTOS)}, "msgs": msgs}


def run(scn) -> RunResult:
    res = RunResult()
    h = hashlib.sha256()
    proto = scn["cfg"]["pin"]
    msgs = [tuple(m) for m in scn["msgs"]]
    # ---------------- direct codec, five protocols ----------------
    for f in msgs:
        want_line = encode(f)
        verdict, _ = classify_line(want_line)
        if verdict != "accept":
            raise AssertionError(f"generator produced a non-well-formed message {f}")
        n, c, cmd, ack, t, p = f
        if ";" in p:
            res.probes["payload_with_delimiter"] += 1
        if p == "":
            res.probes["payload_empty"] += 1
        if cmd == 3 and t in (3, 4) and c != 255:
            res.probes["idrequest_exception"] += 1
        if n >= 100 or c >= 100:
            res.probes["three_digit_ids"] += 1
        if t < 0:
            res.probes["negative_type"] += 1
        for pv in G.PROTOS:
            schema = MessageSchema()
            schema.set_protocol(get_protocol(pv))
            try:
                line = schema.dump(Message(*f))
            except Exception as exc:  # noqa: BLE001
                res.violate(PROP, "dump", f"raised:{type(exc).__name__}", f"{pv} {f}")
                continue
            h.update(repr((pv, line)).encode("utf-8", "backslashreplace"))
            if line != want_line:
                res.violate(PROP, "dump", "encoded-line-differs", f"{pv} {f}: want {want_line!r} got {line!r}")
                continue
            try:
                m = schema.load(line)
                got = (m.node_id, m.child_id, m.command, m.ack, m.message_type, m.payload)
            except ValidationError as exc:
                res.violate(PROP, "load-of-dump", "rejected", f"{pv} {f}: {exc}")
                continue
            except Exception as exc:  # noqa: BLE001
                res.violate(PROP, "load-of-dump", f"raised:{type(exc).__name__}", f"{pv} {f}")
                continue
            if got != f:
                site = "payload-differs" if got[:5] == f[:5] else "fields-differ"
                res.violate(PROP, "load-of-dump", site, f"{pv}: sent {f} decoded {got}")
            else:
                try:
                    again = schema.dump(m)
                    if again.rstrip() != want_line.rstrip():
                        res.violate(PROP, "dump-of-load", "line-differs", f"{pv}: {want_line!r} -> {again!r}")
                except Exception as exc:  # noqa: BLE001
                    res.violate(PROP, "dump-of-load", f"raised:{type(exc).__name__}", f"{pv} {f}")
    # ---------------- at the gateway / transport boundary ----------------
    with gc_paused():
        w = GwWorld({"pin": proto}, {})
        try:
            snap = {}
            for n, c, cmd, ack, t, p in msgs:
                d = snap.setdefault(str(n), {"type": 17, "version": proto, "children": {}})
                if c != 255:
                    d["children"][str(c)] = {"type": 3, "desc": "c"}
            restore_nodes(w.gateway, snap)
            for f in msgs:
                n, c, cmd, ack, t, p = f
                want_line = encode(f)
                # (a) device emits the reference line: listen must yield identical fields
                obs = w.listen_step(want_line)
                res.ops += 1
                if obs.kind == "ok":
                    res.probes["listen_yielded"] += 1
                    if tuple(obs.fields) != f:
                        site = "payload-differs" if tuple(obs.fields)[:5] == f[:5] else "fields-differ"
                        res.violate(PROP, "listen-yield", site, f"{proto}: line {want_line!r} yielded {obs.fields}")
                elif obs.kind == "err" and obs.cls == "InvalidMessageError" and not (cmd == 3 and t in (0, 2, 22)) \
                        and not (cmd == 0 and n == 0 and c == 255):
                    res.violate(PROP, "listen-yield", "wellformed-line-rejected", f"{proto}: {want_line!r}")
                # (b) the app sends the message: exactly one byte-exact line reaches the device
                if True:
                    obs = w.send_step(f, False)
                    res.ops += 1
                    ok = [ln for ln, good in obs.writes if good]
                    if obs.kind == "ok":
                        res.probes["send_written"] += 1
                        if ok != [want_line]:
                            res.violate(PROP, "send-write", "written-line-differs",
                                        f"{proto}: sent {f} want {want_line!r} got {ok!r}")
                        else:
                            # (c) the device echoes what it received: the yielded message equals the sent one
                            obs2 = w.listen_step(ok[0])
                            if obs2.kind == "ok":
                                res.probes["echo_roundtrip"] += 1
                                if tuple(obs2.fields) != f:
                                    res.violate(PROP, "echo", "message-differs", f"{proto}: sent {f} echoed {obs2.fields}")
                    elif not obs.is_lib_error:
                        pass  # C12's business
                # (d) canonical line -> decode -> re-send -> same line up to trailing whitespace
                if obs.kind == "ok":
                    obs3 = w.listen_step(want_line)
                    if obs3.kind == "ok":
                        o4 = w.send_step(tuple(obs3.fields), False)
                        ok = [ln for ln, good in o4.writes if good]
                        if o4.kind == "ok":
                            res.probes["reencode_roundtrip"] += 1
                            if len(ok) != 1 or ok[0].rstrip() != want_line.rstrip():
                                res.violate(PROP, "reencode", "line-differs", f"{proto}: {want_line!r} -> {ok!r}")
        finally:
            h.update(w.elog.digest().encode())
            res.vt = w.loop.time()
            res.steps = w.loop.steps
            w.close()
    res.digest = h.hexdigest()
    nt = [f for f in msgs if ";" in f[5] or f[5] == "" or not f[5].isascii() or f[0] >= 100 or f[1] >= 100
          or (f[2] == 3 and f[4] in (3, 4) and f[1] != 255)]
    if nt:
        res.nontrivial_key = ("C01", proto, tuple(nt))
    return res

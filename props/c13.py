"""C13 — persistence round trip: load reads back every registry that save can write.

A gateway is driven through a message history (node state machines plus
boundary payloads) on the simulated transport; its registry is saved through
the real aiofiles/io stack onto the simulated disk; a NEW registry is loaded
from the surviving image (restart with only durable state) and compared
attribute by attribute.  Also: directly constructed registries, and the same
registry rendered in the legacy pymysensors layout.
"""

from __future__ import annotations

import hashlib
import json
import random

from vsim import gen as G
from vsim.core import RunResult, task_exc
from vsim.gw import GwWorld, gc_paused, snapshot_nodes
from vsim.gwrun import restore_nodes
from vsim.pworld import PATH, PWorld, legacy_image, snapshot

from aiomysensors.exceptions import AIOMySensorsError  # noqa: E402
from aiomysensors.persistence import Persistence  # noqa: E402

PROP = "C13"
LEVEL = "exploration"
LEVEL_TEXT = ("Seeded message histories (incl. boundary payloads: battery -3/0/100/150, empty and non-ASCII strings, "
              "negative and huge type numbers / heartbeats, child ids 0/254, negative value-type keys) build a registry "
              "that is saved through the real aiofiles + io stack to the simulated disk and loaded into an empty "
              "registry by a fresh Persistence object; every node/child attribute must be identical and load must not "
              "raise. Short device writes and executor latencies vary per run. The legacy pymysensors rendering of the "
              "same registry must load to the same registry. A sixth of the scenarios are sessions of one living gateway "
              "whose OWN persistence object saves at several points of a history with re-presentations, context re-entry "
              "and process restarts; every image it writes must load to the registry as it was at that save.")
LEVEL_NOTE = ("Trusted: simulated disk stores exactly the bytes written; directly constructed registries are limited "
              "to battery levels 0-100 (the range the loader documents); legacy files carry no sleeping flag, so the "
              "legacy comparison uses registries whose nodes are not sleeping.")
TECHNIQUE = "deterministic simulation: save -> restart on the durable image -> load, compared with the live registry"
RULE = ("registry built by a seeded history or constructed directly, x write limit x exec latency; non-trivial iff the "
        "registry has >=1 child with a value or a boundary attribute; distinct = distinct saved image")
REAL = ["aiomysensors.persistence.Persistence.save/load", "NodeSchema/ChildSchema (marshmallow)", "aiofiles wrappers",
        "io.TextIOWrapper/BufferedWriter/BufferedReader", "Gateway.listen + handlers (to build the registry)"]
STUB = ["event loop + thread pool (SimLoop.run_in_executor)", "OS file system (SimDisk/SimRawIO)"]
ASSUMPTIONS = ["SimDisk returns what was written"]
REQUIRED_PROBES = ["battery_out_of_range_on_wire", "non_ascii", "negative_type", "huge_int", "short_writes",
                   "legacy_layout", "direct_registry", "history_registry", "empty_registry", "sleeping_node",
                   "load_explicit_path"]
SHRINK_LISTS = ("ops",)


def budget(tier):
    return 6000 if tier == "quick" else 400_000


def wall(tier):
    return 90 if tier == "quick" else 1500


BOUNDARY = [
    "{n};255;3;0;0;150\n", "{n};255;3;0;0;-3\n", "{n};255;3;0;0;100\n", "{n};255;3;0;0;0\n", "{n};255;3;0;0;100.4\n",
    "{n};255;3;0;11;\n", "{n};255;3;0;11;ünï cödé 温度\n", "{n};255;3;0;12;β-1.0\n",
    "{n};0;0;0;-5;neg type\n", "{n};254;0;0;1000000000000;huge type\n", "{n};0;1;0;-1;neg value type\n",
    "{n};0;1;0;99999;v\n", "{n};255;3;0;22;999999999999999999999\n", "{n};255;3;0;22;0\n",
    "{n};255;0;0;-7;\n", "{n};255;0;0;17;ζ\n", "{n};0;1;0;47;a;b;c\n", "{n};0;1;0;2;\n",
    "255;255;3;0;3;\n", "255;255;3;0;3;\n", "254;255;0;0;17;2.2\n", "253;255;0;0;17;2.2\n", "255;255;0;0;17;2.2\n",
    "0;255;0;0;18;2.2.0\n",
]


def gen(seed: int, i: int, tier: str) -> dict:
    rng = random.Random(f"C13:{seed}:{i}")
    proto = rng.choice(G.PROTOS)
    ops = []
    kind = "history"
    if i % 6 == 5:
        # one living gateway with its OWN persistence object: it saves at several points of a history in which nodes
        # present themselves again, are replaced, get children and values, the context is re-entered and the process
        # restarts on the same file.  Every image it writes must load to the registry as it was at that save.
        ids = rng.sample([1, 2, 9, 100, 254], rng.randint(1, 3))
        image = None
        if rng.random() < 0.5:
            image = {str(n): {"type": 17, "version": proto, "sketch_name": rng.choice(["", "sk"]), "sketch_version": "",
                              "battery": rng.choice([0, 50]), "heartbeat": 0, "sleeping": False,
                              "children": {str(c): {"type": 3, "desc": "", "values": {"2": "1"}}
                                           for c in rng.sample([0, 1], rng.randint(0, 2))}}
                     for n in rng.sample(ids, rng.randint(1, len(ids)))}
        for _ in range(rng.randint(3, 14)):
            n = rng.choice(ids)
            r = rng.random()
            if r < 0.2:
                ops.append(["line", f"{n};255;0;0;{rng.choice([17, 18])};{rng.choice([proto, '1.5', '2.3.2'])}\n"])
            elif r < 0.35:
                ops.append(["line", f"{n};{rng.choice([0, 1])};0;0;{rng.choice([0, 3, 6])};{rng.choice(['', 'd'])}\n"])
            elif r < 0.55:
                ops.append(["line", f"{n};{rng.choice([0, 1])};1;0;{rng.choice([0, 2, 47])};{G.payload(rng, semi=True)}\n"])
            elif r < 0.65:
                t = rng.choice([0, 11, 12])
                ops.append(["line", f"{n};255;3;0;{t};{rng.choice(['0', '55', '100']) if t == 0 else rng.choice(['sk', '1.0', ''])}\n"])
            elif r < 0.70:
                ops.append(["line", "255;255;3;0;3;\n"])
            elif r < 0.88:
                ops.append(["save"])
            elif r < 0.94:
                ops.append(["reenter"])
            else:
                ops.append(["restart"])
        ops.append(["save"])
        return {"cfg": {"pin": proto, "persist": True, "image": image}, "kind": "session", "ops": ops,
                "write_limit": rng.choice([None, None, 7, 64]), "tapes": {}}
    if i % 5 == 4:
        kind = "direct"
        snap = {}
        for n in rng.sample([0, 1, 2, 9, 100, 254, 255], rng.randint(0, 4)):
            snap[str(n)] = {"type": rng.choice([17, 18, 0, -1, 10 ** 9]), "version": rng.choice(["2.2.0", "1.4", "", "ζ"]),
                            "sketch_name": rng.choice(["", "sk", "ünï"]), "sketch_version": rng.choice(["", "1.0"]),
                            "battery": rng.choice([0, 1, 50, 100]), "heartbeat": rng.choice([0, 5, -1, 10 ** 20]),
                            "sleeping": rng.random() < 0.3,
                            "children": {str(c): {"type": rng.choice([0, 6, 38, -2]), "desc": rng.choice(["", "d", "é"]),
                                                  "values": {str(t): G.payload(rng, semi=True)
                                                             for t in rng.sample([0, 2, 47, -1, 10 ** 6], rng.randint(0, 3))}}
                                         for c in rng.sample([0, 1, 254, 255], rng.randint(0, 3))}}
        ops.append(["restore", snap])
    else:
        ids = rng.sample([1, 2, 9, 100, 254], rng.randint(1, 3))
        scripts = [G.node_script(rng, proto, n, [0, 1, 254], [0, 2, 47], rng.randint(2, 10), semi=True) for n in ids]
        lines = G.merge(rng, scripts)
        for _ in range(rng.randint(0, 5)):
            lines.insert(rng.randint(1, len(lines)), rng.choice(BOUNDARY).format(n=rng.choice(ids)))
        ops = [["line", ln] for ln in lines]
    return {"cfg": {"pin": proto}, "kind": kind, "ops": ops,
            "write_limit": rng.choice([None, None, 1, 7, 64, 1000]), "read_limit": rng.choice([None, None, 1, 13]),
            "explicit_path": rng.random() < 0.2,
            "tapes": {"exec.lat": [rng.choice([0, 0, 1, 5]) for _ in range(rng.randint(0, 8))]}}


def _run_session(scn) -> RunResult:
    res = RunResult()
    res.probes["session_own_persistence"] += 1
    cfg = dict(scn["cfg"])
    if cfg.get("image") is not None:
        from vsim.pworld import native_image
        cfg["image"] = native_image({int(k): v | {"children": {int(c): cv | {"values": {int(t): x for t, x in cv["values"].items()}}
                                                               for c, cv in v["children"].items()}}
                                     for k, v in cfg["image"].items()})
    with gc_paused():
        w = GwWorld(cfg, scn.get("tapes") or {})
        try:
            w.disk.write_limit = scn.get("write_limit")
            saves = 0

            def check(label):
                want = snapshot_nodes(w.gateway)
                img = w.disk.image(PATH)
                if img is None:
                    res.violate(PROP, "load-of-save", f"no-file:{label}", "")
                    return
                w.disk.files["/sim/check.json"] = bytearray(img)
                loaded: dict = {}
                t = w.loop.create_task(Persistence(loaded, "/sim/check.json").load())
                w.loop.run_until_idle(20)
                if not t.done() or task_exc(t) is not None:
                    res.violate(PROP, "load-of-save", f"saved-file-rejected:{label}",
                                f"{task_exc(t) if t.done() else 'hang'!r} image={bytes(img)[:200]!r}")
                elif snapshot(loaded) != want:
                    res.violate(PROP, "load-of-save", f"registry-differs:{label}",
                                f"live registry {want} file loads to {snapshot(loaded)}"[:700])

            for op in scn["ops"]:
                res.ops += 1
                if op[0] == "line":
                    w.listen_step(op[1])
                elif op[0] == "save":
                    t = w.loop.create_task(w.gateway.persistence.save())
                    w.loop.run_until_idle(20)
                    if not t.done() or task_exc(t) is not None:
                        res.violate(PROP, "save", "own-persistence-save-failed", repr(task_exc(t) if t.done() else "hang")[:200])
                        continue
                    saves += 1
                    check("own-save")
                elif op[0] == "reenter":
                    w.reenter()
                    check("after-reentry")  # the exit of the first context wrote the final registry
                    res.probes["session_reentered"] += 1
                elif op[0] == "restart":
                    w.restart(False)
                    res.probes["session_restarted"] += 1
            if saves >= 2:
                res.probes["session_saved_repeatedly"] += 1
            res.vt = w.loop.time()
            res.steps = w.loop.steps
            res.faults.update(w.faults)
            res.digest = w.elog.digest()
            res.nontrivial_key = "C13s:" + res.digest[:24]
        finally:
            w.close()
    return res


def run(scn) -> RunResult:
    if scn.get("kind") == "session":
        return _run_session(scn)
    res = RunResult()
    h = hashlib.sha256()
    with gc_paused():
        w = GwWorld(scn["cfg"], {})
        try:
            for op in scn["ops"]:
                if op[0] == "line":
                    o = w.listen_step(op[1])
                    if "3;0;0;150" in op[1] or "3;0;0;-3" in op[1]:
                        res.probes["battery_out_of_range_on_wire"] += 1
                elif op[0] == "restore":
                    restore_nodes(w.gateway, op[1])
            nodes = w.gateway.nodes
            before = snapshot_nodes(w.gateway)
            h.update(w.elog.digest().encode())
        finally:
            w.close()
        res.probes["direct_registry" if scn["kind"] == "direct" else "history_registry"] += 1
        if not before:
            res.probes["empty_registry"] += 1
        text = json.dumps(before, default=str, ensure_ascii=False)
        if not text.isascii():
            res.probes["non_ascii"] += 1
        if any(d["type"] < 0 or any(c["type"] < 0 or any(t < 0 for t in c["values"]) for c in d["children"].values())
               for d in before.values()):
            res.probes["negative_type"] += 1
        if any(abs(d["heartbeat"]) > 2 ** 63 or abs(d["type"]) > 2 ** 31 for d in before.values()):
            res.probes["huge_int"] += 1
        if any(d["sleeping"] for d in before.values()):
            res.probes["sleeping_node"] += 1
        pw = PWorld(scn.get("tapes"))
        try:
            pw.disk.write_limit = scn.get("write_limit")
            pw.disk.read_limit = scn.get("read_limit")
            kind, val = pw.run(Persistence(nodes, PATH).save())
            res.ops += 1
            if kind != "ok":
                res.violate(PROP, "save", f"{kind}:{type(val).__name__ if val else ''}", repr(val)[:300])
            else:
                if pw.disk.fired.get("short_write"):
                    res.probes["short_writes"] += 1
                image = pw.disk.image(PATH)
                loaded: dict = {}
                if scn.get("explicit_path"):
                    # import of another file through the documented path argument
                    res.probes["load_explicit_path"] += 1
                    kind, val = pw.run(Persistence(loaded, "/sim/own-file.json").load(PATH))
                else:
                    kind, val = pw.run(Persistence(loaded, PATH).load())
                res.ops += 1
                if kind != "ok":
                    cls = type(val).__name__ if val is not None else ""
                    bad_batt = sorted({d["battery"] for d in before.values() if not 0 <= d["battery"] <= 100})
                    site = f"saved-file-rejected:{cls}" + (":battery-out-of-range" if bad_batt else "")
                    res.violate(PROP, "load-of-save", site, f"{val!r} registry={before}"[:500])
                else:
                    after = snapshot(loaded)
                    if after != before:
                        res.violate(PROP, "load-of-save", "registry-differs",
                                    f"before {before} after {after}"[:600])
                # legacy layout of the same registry
                if kind == "ok" and not any(d["sleeping"] for d in before.values()):
                    res.probes["legacy_layout"] += 1
                    pw.disk.files[PATH] = bytearray(legacy_image(before, null_strings=bool(scn.get("write_limit"))).encode())
                    loaded2: dict = {}
                    kind2, val2 = pw.run(Persistence(loaded2, PATH).load())
                    if kind2 != "ok":
                        res.violate(PROP, "legacy-load", f"rejected:{type(val2).__name__ if val2 else kind2}", repr(val2)[:300])
                    elif snapshot(loaded2) != before:
                        res.violate(PROP, "legacy-load", "registry-differs", f"want {before} got {snapshot(loaded2)}"[:600])
                h.update(image or b"")
        finally:
            h.update(pw.elog.digest().encode())
            res.vt = pw.loop.time()
            res.steps = pw.loop.steps
            res.faults.update(pw.faults)
            pw.close()
    res.digest = h.hexdigest()
    if any(d["children"] for d in before.values()) or res.probes.get("battery_out_of_range_on_wire"):
        res.nontrivial_key = "C13:" + hashlib.sha256(json.dumps(before, sort_keys=True, default=str).encode()).hexdigest()[:24]
    return res

"""C04 — the registry is a faithful record of what the network presented and reported.

1-4 simulated nodes behind the device, each a small state machine; their
traffic is merged on one link that loses, duplicates and reorders lines.
Refinement against the reference model after every step: yielded fields,
exactly one yield per successful line, registry snapshot, and the error class
plus node_id/child_id attribute for references to unknown nodes/children.
"""

from __future__ import annotations

import random

from vsim import gen as G
from vsim.gwrun import execute

PROP = "C04"
LEVEL = "exploration"
LEVEL_TEXT = ("Step-by-step refinement of the public registry, yielded messages and Missing*-error attributes against an "
              "independent executable model, over (a) every history of length <=3 over a 13-symbol alphabet per protocol "
              "version in the thorough tier / a seeded slice of it in quick and (b) seeded long histories of 1-4 nodes "
              "merged on a lossy/duplicating/reordering link. Sampling beyond length 3.")
LEVEL_NOTE = ("Trusted: the reference model (vsim/model.py, written from the property text); battery payloads limited "
              "to integers 0-100 and decimals away from .5 ties; versions given in two-component form (C05 is separate).")
TECHNIQUE = "deterministic simulation: model-based refinement under link faults (loss/duplication/reordering)"
RULE = ("histories = short-history sweep (all sequences <=3 over a 13-symbol alphabet) + seeded node state machines "
        "merged with drop/dup/swap link faults; non-trivial iff the history contains a re-presentation, a reference to "
        "an unknown node/child, or >=2 nodes; distinct = distinct (protocol, line sequence)")
REAL = ["aiomysensors.Gateway.listen", "all incoming handlers 1.4-2.2", "Node/Child", "marshmallow codec"]
STUB = ["event loop (SimLoop)", "transport (SimTransport)"]
ASSUMPTIONS = ["reference model is the oracle", "reboot flag is not part of the compared state"]
REQUIRED_PROBES = ["re_presentation_with_children", "child_re_presentation", "missing_child_known_node",
                   "missing_node", "link_dup", "link_swap", "link_drop"]
ASPECTS = ("registry", "yield", "outcome")

ALPHABET = [
    "1;255;0;0;17;{v}\n", "2;255;0;0;18;{v}\n", "1;0;0;0;6;temp\n", "1;7;0;0;3;light\n", "2;1;0;0;0;door\n",
    "1;0;1;0;0;20.5\n", "1;7;1;0;2;1\n", "1;0;1;0;0;21\n", "2;1;1;1;16;0\n", "1;3;1;0;0;9\n",
    "1;255;3;0;0;77\n", "1;255;3;0;11;sketch\n", "3;4;2;0;0;\n",
]


def budget(tier):
    return 12000 if tier == "quick" else 5 * G.short_history_count(len(ALPHABET), 3) + 300_000


def wall(tier):
    return 90 if tier == "quick" else 1500


def _gen(seed: int, i: int, tier: str) -> dict:
    rng = random.Random(f"C04:{seed}:{i}")
    nshort = G.short_history_count(len(ALPHABET), 3)
    if tier == "thorough" and i < 5 * nshort:
        proto = G.PROTOS[i // nshort]
        hist = G.short_history(i % nshort, ALPHABET, 3)
        return {"cfg": {"pin": proto}, "kind": "short", "ops": [["line", h.format(v=proto)] for h in hist]}
    if tier == "quick" and i < 4000:
        proto = rng.choice(G.PROTOS)
        hist = G.short_history(rng.randrange(nshort), ALPHABET, 3)
        return {"cfg": {"pin": proto}, "kind": "short", "ops": [["line", h.format(v=proto)] for h in hist]}
    proto = rng.choice(G.PROTOS)
    nn = rng.randint(1, 4)
    ids = rng.sample([0, 1, 2, 3, 7, 9, 10, 99, 100, 254, 255], nn)
    children = rng.sample([0, 1, 2, 7, 9, 254], rng.randint(1, 3))
    if rng.random() < 0.3:
        children.append(ids[0])  # child id == node id: must not be confused
    types = rng.sample([0, 1, 2, 3, 16, 24, 38, 47], rng.randint(1, 3))
    scripts = [G.node_script(rng, proto, n, children, types, rng.randint(2, 14)) for n in ids]
    lines = G.merge(rng, scripts)
    # gateway-side traffic between the nodes' lines: none of it may disturb the registry (except the placeholder
    # of an id request, which the model adopts)
    for _ in range(rng.randint(0, 4)):
        lines.insert(rng.randint(0, len(lines)), rng.choice([
            f"0;255;3;0;2;{proto}\n", "0;255;3;0;14;Gateway startup complete.\n", "0;255;3;0;9;TSF:MSG:READ,1-1-0\n",
            "255;255;3;0;3;\n", f"{rng.choice(ids)};255;3;0;6;0\n", f"{rng.choice(ids)};255;3;0;1;\n",
            f"0;255;0;0;18;{proto}\n"]))
    counts = {}
    swarm = rng.random()
    if swarm < 0.25:
        pass  # fault-free link
    else:
        lines = G.link_faults(rng, lines, drop=rng.choice([0, 0.05, 0.2]), dup=rng.choice([0, 0.05, 0.2]),
                              swap=rng.choice([0, 0.1, 0.3]), counts=counts)
    ops = []
    for ln in lines:
        ops.append(["line", ln])
    if proto in G.PROTOS_2X and rng.random() < 0.5:
        # the application sends commands meanwhile; what a wake releases must not leak into what listen yields
        for _ in range(rng.randint(1, 5)):
            ops.insert(rng.randint(0, len(ops)), ["send", [rng.choice(ids), rng.choice(children), 1, 0,
                                                            rng.choice(types), G.payload(rng)], rng.random() < 0.9])
    # consumption style: a new listen() now and then even without an error
    if rng.random() < 0.5:
        for _ in range(rng.randint(1, 3)):
            ops.insert(rng.randint(0, len(ops)), ["relisten"])
    cfg = {"pin": proto}
    if rng.random() < 0.2:
        cfg = {"pin": None}
        ops.insert(0, ["line", f"0;255;0;0;18;{proto}\n"])
    return {"cfg": cfg, "kind": "long", "ops": ops, "link": counts}


def gen(seed: int, i: int, tier: str) -> dict:
    if i % 4 == 3:
        from vsim.universe import gen_universe
        return gen_universe(random.Random(f"U:C04:{seed}:{i}"), tier)
    scn = _gen(seed, i, tier)
    return G.maybe_tcp(random.Random(f"C04link:{seed}:{i}"), scn)


def run(scn):
    if scn.get("kind") == "universe":
        from vsim.universe import run_universe
        return run_universe(scn, PROP, ASPECTS, keep=None)
    st = {"repres": False, "unknown": False, "nodes": set(), "lines": []}

    def on_step(i, op, obs, disc, model, w, res):
        if op[0] != "line":
            return
        parts = op[1].rstrip("\n").split(";")
        st["lines"].append(op[1])
        if len(parts) >= 6 and obs is not None:
            n, c, cmd = int(parts[0]), int(parts[1]), int(parts[2])
            st["nodes"].add(n)
            if obs.kind == "err" and obs.cls == "MissingChildError":
                res.probes["missing_child_known_node"] += 1
                st["unknown"] = True
                if n != c:
                    res.probes["missing_child_node_ne_child"] += 1
            if obs.kind == "err" and obs.cls == "MissingNodeError":
                res.probes["missing_node"] += 1
                st["unknown"] = True
            if cmd == 0 and c == 255 and st.get("had_children", {}).get(n):
                res.probes["re_presentation_with_children"] += 1
                st["repres"] = True
            if cmd == 0 and c != 255 and obs.kind == "ok":
                hc = st.setdefault("had_children", {})
                if c in hc.setdefault(n, set()):
                    res.probes["child_re_presentation"] += 1
                hc[n].add(c)
            if cmd == 0 and c == 255:
                st.setdefault("had_children", {})[n] = set()

    res = execute(scn, PROP, ASPECTS, on_step=on_step)
    for k, v in (scn.get("link") or {}).items():
        res.faults["link_" + k] += v
        res.probes["link_" + k] += v
    if st["repres"] or st["unknown"] or len(st["nodes"]) >= 2:
        res.nontrivial_key = ("C04", scn["cfg"].get("pin"), tuple(st["lines"]))
    return res

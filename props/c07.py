"""C07 — sleep buffer: commands for a sleeping node wait for its wake, then go once.

Sequential histories of application send() calls (set commands, buffering
default/off) and received wake / non-wake lines over several nodes, children
and value types, protocol 2.0-2.2, plus 1.x with a sleeping flag restored.
Oracle: reference model of the buffer keyed (node, child, type), last parked
value wins; checks every Transport.write after each send and each line.
"""

from __future__ import annotations

import random

from vsim import gen as G
from vsim.gwrun import execute

PROP = "C07"
LEVEL = "exploration"
LEVEL_TEXT = ("Every send() and every received line is followed by a comparison of all Transport.write calls with a "
              "reference model of the sleep buffer (parked per (node, child, type), last value wins, released exactly "
              "once at that node's wake signal of the active protocol, other nodes untouched, unbuffered/awake sends "
              "byte-identical and immediate). All sequential histories of length <=4 over a 10-symbol alphabet in the "
              "thorough tier; seeded longer histories beyond, a quarter of them mixed 'universe' histories (version "
              "reports, re-entry, restarts, faults in between) and a sixteenth in C09's schedule world (application "
              "sends while a release is suspended in a write, fault-free).")
LEVEL_NOTE = ("Trusted: reference model. 'Most recently sent value' is read as most recently parked value since the last "
              "release; a node that re-presents is no longer known to be sleeping (its record is recreated).")
TECHNIQUE = "deterministic simulation: model-based check of sequential send/wake histories on a simulated transport"
RULE = ("histories over {send(key,value,buffer flag), wake(node), non-wake line, re-presentation} for 1-3 nodes; "
        "non-trivial iff something was parked and a wake occurred afterwards; distinct = distinct (protocol, op list)")
REAL = ["aiomysensors.Gateway.listen/send", "outgoing set handler", "sleep buffer flush 2.0-2.2", "marshmallow codec"]
STUB = ["event loop (SimLoop)", "transport (SimTransport)"]
ASSUMPTIONS = ["reference model is the oracle"]
REQUIRED_PROBES = ["overwrite_before_wake", "two_keys_one_node", "wake_of_other_node", "rebuffer_after_flush",
                   "heartbeat_22_no_flush", "unbuffered_to_sleeping", "send_to_unknown_node", "sleeping_1x_restored",
                   "version_report_while_parked"]
ASPECTS = ("send", "writes.")

SHORT = [
    ["send", [1, 0, 1, 0, 2, "a"], True], ["send", [1, 0, 1, 0, 2, "b"], True], ["send", [1, 1, 1, 0, 3, "c"], True],
    ["send", [2, 0, 1, 0, 2, "d"], True], ["send", [1, 0, 1, 0, 2, "e"], False],
    ["wake", 1], ["wake", 2], ["hb", 1], ["line", "1;0;1;0;2;7\n"], ["line", "1;255;0;0;17;{v}\n"],
    ["line", "0;255;3;0;2;{v}\n"],
]


SHRINK_LISTS = ("ops", "setup", "tapes", "actors", "lines", "sends", "scn")


def budget(tier):
    return 12000 if tier == "quick" else 3 * G.short_history_count(len(SHORT), 4) + 250_000


def wall(tier):
    return 90 if tier == "quick" else 1500


def _expand(proto, sym, k):
    if sym[0] == "wake":
        return ["line", G.wake_line(proto, sym[1], k)]
    if sym[0] == "hb":
        return ["line", f"{sym[1]};255;3;0;22;{k}\n"]
    if sym[0] == "line":
        return ["line", sym[1].format(v=proto)]
    return sym


def _setup(proto, nodes, children):
    ops = []
    for n in nodes:
        ops.append(["line", f"{n};255;0;0;17;{proto}\n"])
        for c in children:
            ops.append(["line", f"{n};{c};0;0;3;c\n"])
    return ops


def _gen(seed: int, i: int, tier: str) -> dict:
    rng = random.Random(f"C07:{seed}:{i}")
    nshort = G.short_history_count(len(SHORT), 4)
    short = None
    if tier == "thorough" and i < 3 * nshort:
        proto = G.PROTOS_2X[i // nshort]
        short = G.short_history(i % nshort, SHORT, 4)
    elif tier == "quick" and i < 4000:
        proto = rng.choice(G.PROTOS_2X)
        short = G.short_history(rng.randrange(nshort), SHORT, 4)
    if short is not None:
        ops = _setup(proto, [1, 2], [0, 1])
        # nodes start sleeping (one wake each) in half of the sweep, awake in the other half
        if i % 2 == 0:
            ops += [["line", G.wake_line(proto, 1, 0)], ["line", G.wake_line(proto, 2, 0)]]
        ops += [_expand(proto, s, k + 1) for k, s in enumerate(short)]
        ops += [["line", G.wake_line(proto, 1, 98)], ["line", G.wake_line(proto, 2, 99)]]
        return {"cfg": {"pin": proto}, "kind": "short", "ops": ops}
    if i % 9 == 0:
        # 1.x: the sleeping flag can only come from a restored registry; nothing ever releases
        proto = rng.choice(["1.4", "1.5"])
        ops = [["restore", {"1": {"type": 17, "version": proto, "sleeping": True,
                                  "children": {"0": {"type": 3, "desc": "c"}}},
                            "2": {"type": 17, "version": proto, "sleeping": False,
                                  "children": {"0": {"type": 3, "desc": "c"}}}}]]
        for _ in range(rng.randint(1, 8)):
            r = rng.random()
            if r < 0.6:
                ops.append(["send", [rng.choice([1, 2, 3]), 0, 1, rng.choice([0, 1]), rng.choice([2, 3]),
                                     G.payload(rng)], rng.random() < 0.8])
            else:
                ops.append(["line", f"{rng.choice([1, 2])};0;1;0;2;{G.payload(rng)}\n"])
        return {"cfg": {"pin": proto}, "kind": "1x", "ops": ops}
    proto = pin = rng.choice(G.PROTOS_2X)
    nodes = rng.sample([0, 1, 2, 3, 9, 254], rng.randint(1, 3))
    children = rng.sample([0, 1, 7, 254], rng.randint(1, 2))
    types = rng.sample([2, 3, 24, 47], rng.randint(1, 2))
    ops = _setup(proto, nodes, children)
    hb = 0
    for _ in range(rng.randint(3, 30)):
        r = rng.random()
        n = rng.choice(nodes)
        hb += 1
        if r < 0.45:
            dest = n if rng.random() < 0.92 else 77
            ops.append(["send", [dest, rng.choice(children), 1, rng.choice([0, 0, 1]), rng.choice(types),
                                 G.payload(rng)], rng.random() < 0.85])
        elif r < 0.70:
            ops.append(["line", G.wake_line(proto, n, hb)])
        elif r < 0.78:
            ops.append(["line", f"{n};255;3;0;22;{hb}\n"])
        elif r < 0.84:
            ops.append(["line", f"{n};255;0;0;17;{proto}\n"])
            for c in children:
                ops.append(["line", f"{n};{c};0;0;3;c\n"])
        elif r < 0.86:
            ops.append(["line", f"{n};{rng.choice(children)};1;0;{rng.choice(types)};{G.payload(rng)}\n"])
        elif r < 0.90:
            # the node asks for a value back: the reply goes out at once and leaves what is parked alone
            ops.append(["line", f"{n};{rng.choice(children)};2;0;{rng.choice(types)};\n"])
        elif r < 0.96:
            # the gateway reports its (unchanged) version again: reply to a version query, or the gateway
            # node presenting itself after a restart - parked commands must survive that
            ops.append(["line", rng.choice([f"0;255;3;0;2;{proto}\n", f"0;255;0;0;18;{proto}\n",
                                            "0;255;3;0;14;Gateway startup complete.\n"])])
        elif r < 0.97:
            ops.append(["relisten"])
        elif r < 0.98:
            ops.append(["reenter"])
        else:
            # the gateway was updated: it reports another 2.x version; parked commands survive, the wake signal
            # of the new protocol applies from here on
            proto = rng.choice([p for p in G.PROTOS_2X if p != proto])
            ops.append(["line", rng.choice([f"0;255;3;0;2;{proto}.0\n", f"0;255;0;0;18;{proto}\n"])])
    for n in nodes:
        ops.append(["line", G.wake_line(proto, n, 99)])
    return {"cfg": {"pin": pin}, "kind": "long", "ops": ops}


def gen(seed: int, i: int, tier: str) -> dict:
    if i % 16 == 9:
        # the same promise with the application sending WHILE the release is suspended in a write (fault-free
        # schedule sub-world shared with C09): what is parked during a release goes out at the next wake
        from props import c09
        inner = c09.gen(seed, i, tier)
        for k in list(inner.get("tapes", {})):
            if k.startswith("w.fail"):
                del inner["tapes"][k]
        if not inner["tapes"].get("w.lat"):
            inner["tapes"]["w.lat"] = [2, 1, 2]
        return {"kind": "race", "scn": inner}
    if i % 4 == 3:
        from vsim.universe import gen_universe
        return gen_universe(random.Random(f"U:C07:{seed}:{i}"), tier)
    scn = _gen(seed, i, tier)
    return G.maybe_tcp(random.Random(f"C07link:{seed}:{i}"), scn)


def run(scn):
    if scn.get("kind") == "race":
        from props import c09
        from vsim.core import RunResult
        inner = c09.run(scn["scn"])
        res = RunResult()
        res.digest, res.vt, res.steps, res.ops = inner.digest, inner.vt, inner.steps, inner.ops
        res.faults.update(inner.faults)
        res.probes["send_during_release"] += 1
        if not (inner.faults.get("write_fail_early") or inner.faults.get("write_fail_late")):
            for v in inner.violations:
                if v.oracle in ("last-write-is-maximal-send", "not-written-more-often-than-sent"):
                    res.violate(PROP, "writes.release", f"{v.site}:send-during-release", v.detail)
        res.nontrivial_key = "C07r:" + inner.digest[:24]
        return res
    if scn.get("kind") == "universe":
        from vsim.universe import run_universe
        return run_universe(scn, PROP, ASPECTS, keep=None)
    st = {"parked_then_wake": False, "flushed": set()}
    proto = scn["cfg"]["pin"]

    def on_step(i, op, obs, disc, model, w, res):
        if obs is None:
            return
        if op[0] == "send":
            n, c, cmd, ack, t, p = op[1]
            buf = op[2] if len(op) > 2 else True
            node = model.nodes.get(n)
            key = (n, c, t)
            if node is None:
                res.probes["send_to_unknown_node"] += 1
            elif node["sleeping"] and not buf:
                res.probes["unbuffered_to_sleeping"] += 1
            elif node["sleeping"]:
                if proto in ("1.4", "1.5"):
                    res.probes["sleeping_1x_restored"] += 1
                if st.get("prev_parked") and key in st["prev_parked"]:
                    res.probes["overwrite_before_wake"] += 1
                if any(k[0] == n and k != key for k in model.parked):
                    res.probes["two_keys_one_node"] += 1
                if n in st["flushed"]:
                    res.probes["rebuffer_after_flush"] += 1
            st["prev_parked"] = set(model.parked)
        elif op[0] == "line":
            parts = op[1].rstrip("\n").split(";")
            if len(parts) >= 6 and parts[2] == "3" and obs.kind == "ok":
                n, t = int(parts[0]), int(parts[4])
                is_wake = (t == 22 and model.proto in ("2.0", "2.1")) or (t == 32 and model.proto == "2.2")
                if is_wake:
                    if any(ok and ln.split(";")[2] == "1" for ln, ok in obs.writes):
                        st["parked_then_wake"] = True
                        st["flushed"].add(n)
                    if any(k[0] != n for k in model.parked):
                        res.probes["wake_of_other_node"] += 1
                if t == 22 and model.proto == "2.2" and any(k[0] == n for k in model.parked):
                    res.probes["heartbeat_22_no_flush"] += 1
                if parts[0] == "0" and (parts[4] == "2" or parts[2] == "0") and model.parked:
                    res.probes["version_report_while_parked"] += 1
            st["prev_parked"] = set(model.parked)

    res = execute(scn, PROP, ASPECTS, on_step=on_step)
    if st["parked_then_wake"]:
        res.nontrivial_key = ("C07", proto, scn["ops"])
    return res

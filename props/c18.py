"""C18 — the MQTT transport maps topics and lines one-to-one and never goes silently deaf.

(i) The real MQTTClient on a stub aiomqtt client (real incoming queue and
MessagesIterator) wired to an in-process broker: prefixes with and without
'/', payloads empty / with ';' / with '/' / non-ASCII / binary; the broker
injects messages and errors in arbitrary order and timing relative to reads,
echoes publications from the out-prefix to the in-prefix into a real Gateway,
and the transport is disconnected at any instant.  (ii) A minimal concrete
MQTTTransport subclass driven through the documented _receive/_receive_error
hooks.
"""

from __future__ import annotations

import asyncio
import random
from collections import Counter

from vsim.core import EventLog, RunResult, Tapes, use_repo
from vsim.gw import gc_paused
from vsim.loop import new_loop
from vsim.model import encode
from vsim.mqtt import SimBroker, make_client_class, topic_matches

use_repo()
import aiomysensors.transport.mqtt as _mq  # noqa: E402
from aiomysensors.exceptions import AIOMySensorsError, TransportError  # noqa: E402
from aiomysensors.gateway import Gateway  # noqa: E402
from aiomysensors.model.message import Message  # noqa: E402
from aiomysensors.model.node import Child, Node  # noqa: E402

PROP = "C18"
LEVEL = "exploration"
LEVEL_TEXT = ("Seeded (prefix pair, message/payload set, broker event schedule, read schedule, disconnect instant, fault "
              "tapes) on the real MQTTClient over a stub aiomqtt client with the real message iterator: publish "
              "arguments, subscription coverage (broker-side filter matching), FIFO exactly-once delivery of messages "
              "and errors to reads, non-progress detection at quiescence (an injected event never delivered to a "
              "blocked reader = silently deaf), echo round trip through a real Gateway, and disconnect at arbitrary "
              "instants, a second session on the same object, a retried connect after an injected connect/subscribe "
              "failure (all five command classes must be received afterwards) and bursts of up to 1000 messages before "
              "the first read. Plus the hook-level contract of an MQTTTransport subclass.")
LEVEL_NOTE = ("Trusted: SimMqttClient/SimBroker model connect/subscribe/publish/unexpected-disconnect as aiomqtt "
              "exposes them; real paho-mqtt and sockets never run. After a broker error nothing further is demanded of "
              "reads (the application is expected to reconnect).")
TECHNIQUE = "deterministic simulation: in-process broker with fault injection + real aiomqtt iterator, history oracle"
RULE = ("scenario = prefixes x 1-10 broker events (messages incl. binary payloads, unexpected disconnect) at seeded "
        "instants x reads x writes x disconnect instant x fault tapes; non-trivial iff >=2 broker events or a fault "
        "fired or the payload is special; distinct = distinct event log")
REAL = ["aiomysensors.transport.mqtt.MQTTTransport/MQTTClient", "aiomqtt.Client queue/_disconnected/MessagesIterator/"
        "Message/Topic", "Gateway.listen/send (echo phase)"]
STUB = ["aiomqtt connect/publish/subscribe + paho-mqtt + broker (SimMqttClient, SimBroker)", "event loop (SimLoop)"]
ASSUMPTIONS = ["stub client is faithful to aiomqtt's observable contract"]
REQUIRED_PROBES = ["prefix_with_slash", "payload_with_semicolon", "payload_with_slash", "payload_binary",
                   "payload_empty", "broker_drop", "disconnect_reader_blocked", "disconnect_right_after_connect",
                   "echo_roundtrip", "hook_subclass", "reads_fifo", "publish_failed", "connect_failed",
                   "second_session", "reconnect_after_failed_disconnect", "burst_before_first_read"]
SHRINK_LISTS = ("events", "writes", "tapes", "echo")

PREFIXES = [("mygateway1-out", "mygateway1-in"), ("a/b/out", "a/b/in"), ("x", "y"), ("home/ms/1/out", "home/ms/1/in"),
            ("out", "out2"), ("gw-out/", "gw-in")]
PAYLOADS = [b"", b"0", b"1", b"20.5", b"a;b", b"55.7;13.0;18", b"a/b", b"x/y;z", "åäö €".encode(), "温度".encode(),
            b"\xff\xfe", b"\xc3", b"\x00\x01", b"hello world", b";", b"/"]


def _exc(task):
    """Exception of a finished task; a task that ended cancelled (a CancelledError leaked out of the library into the
    caller's task) counts as having raised CancelledError."""
    if task.cancelled():
        return asyncio.CancelledError()
    return task.exception()


def budget(tier):
    return 8000 if tier == "quick" else 450_000


def wall(tier):
    return 90 if tier == "quick" else 1500


def gen(seed: int, i: int, tier: str) -> dict:
    rng = random.Random(f"C18:{seed}:{i}")
    inp, outp = rng.choice(PREFIXES)
    events = []
    t = 1.0
    for _ in range(rng.randint(0, 10)):
        t += rng.choice([0, 0, 0.5, 1, 3])
        r = rng.random()
        if r < 0.85:
            events.append({"at": t, "op": "msg", "f": [rng.choice([0, 1, 12, 255]), rng.choice([0, 3, 255]),
                                                       rng.choice([0, 1, 2, 3, 4]), rng.choice([0, 1]),
                                                       rng.choice([0, 2, 19, 47])],
                           "payload": rng.choice(PAYLOADS).hex()})
        elif r < 0.93:
            events.append({"at": t, "op": "drop"})
        else:
            events.append({"at": t, "op": "foreign", "topic": rng.choice([f"{inp}/1/2/9/0/0", f"{inp}/1/2/1/0", "other/1/2/1/0/0",
                                                                       f"{inp}/1/2/1/0/0/7"])})
    if i % 40 == 7:
        # a burst while the application is busy: many messages queue up before the first read
        nburst = rng.choice([257, 300, 1000])
        events = [{"at": 1.0, "op": "msg", "f": [k % 250, k % 3, 1, 0, 2], "payload": str(k).encode().hex()} for k in range(nburst)]
        return {"cfg": {"in": inp, "out": outp, "reads": nburst + 1, "read_start": 5.25, "disconnect_at": 50.0, "echo": False,
                        "second_session": False}, "events": events + [{"at": 10.0, "op": "msg", "f": [1, 1, 1, 0, 2], "payload": b"late".hex()}],
                "writes": [], "echo": [], "tapes": {}, "burst": nburst}
    writes = []
    for _ in range(rng.randint(0, 4)):
        f = [rng.choice([0, 1, 12, 255]), rng.choice([0, 3, 255]), rng.choice([0, 1, 2, 3, 4]), rng.choice([0, 1]),
             rng.choice([0, 2, 19, 47])]
        p = rng.choice([p for p in PAYLOADS if p not in (b"\xff\xfe", b"\xc3")]).decode()
        writes.append({"at": rng.choice([0.25, 1.25, 2.75, 6.25]), "line": encode(f + [p.rstrip()])})
    writes.sort(key=lambda w: w["at"])
    nreads = rng.randint(0, len(events) + 1)
    cfg = {"in": inp, "out": outp, "reads": nreads, "read_start": rng.choice([0.0, 0.0, 2.25, 7.25]),
           "disconnect_at": rng.choice([0.0, 0.0, 0.75, 3.75, 20.0, 20.0, 20.0]),
           "echo": rng.random() < 0.35, "second_session": rng.random() < 0.3}
    tapes = {}
    if rng.random() < 0.06:
        tapes["mqtt.connect.fail"] = [1]
    if rng.random() < 0.15:
        tapes["mqtt.publish.fail"] = [rng.choice([0, 1, 2]) for _ in range(4)]
    if rng.random() < 0.3:
        tapes["mqtt.publish.lat"] = [rng.choice([0, 1, 2, 15]) for _ in range(4)]
    if rng.random() < 0.05:
        tapes["mqtt.subscribe.fail"] = [0, 0, rng.choice([0, 1])]
    if rng.random() < 0.1:
        tapes["mqtt.disconnect.fail"] = [1]
    echo = []
    if cfg["echo"]:
        for _ in range(rng.randint(1, 5)):
            cmd = rng.choice([1, 1, 3])
            p = rng.choice(["0", "1", "a;b", "55.7;13.0;18", "", "åäö", "x/y", ";"])
            echo.append([1, 0, 1, rng.choice([0, 1]), rng.choice([2, 47]), p] if cmd == 1 else
                        [rng.choice([0, 1, 200]), 255, 3, rng.choice([0, 1]), 9, p])
    return {"cfg": cfg, "events": events, "writes": writes, "echo": echo, "tapes": tapes}


class World:
    def __init__(self, tapes):
        self.loop = new_loop()
        self.tapes = Tapes(tapes)
        self.elog = EventLog()
        self.faults = Counter()

    def log(self, actor, kind, *args):
        return self.elog.add(self.loop.time(), actor, kind, *args)


def run(scn) -> RunResult:
    res = RunResult()
    old_client = _mq.AsyncioClient
    with gc_paused():
        w = World(scn.get("tapes"))
        broker = SimBroker(w)
        try:
            _mq.AsyncioClient = make_client_class(broker)
            _phase_client(scn, w, broker, res)
            if scn["cfg"].get("echo") and scn.get("echo"):
                _phase_echo(scn, w, res)
            _phase_hooks(scn, w, res)
        finally:
            _mq.AsyncioClient = old_client
            res.digest = w.elog.digest()
            res.vt = w.loop.time()
            res.steps = w.loop.steps
            res.faults.update(w.faults)
            w.loop.shutdown()
    return res


def _expect_line(f, payload: bytes):
    try:
        return f"{f[0]};{f[1]};{f[2]};{f[3]};{f[4]};{payload.decode('utf-8', 'strict')}"
    except UnicodeDecodeError:
        return None


def _phase_client(scn, w, broker, res):
    loop = w.loop
    cfg = scn["cfg"]
    inp, outp = cfg["in"], cfg["out"]
    if "/" in inp or "/" in outp:
        res.probes["prefix_with_slash"] += 1
    tr = _mq.MQTTClient("broker.sim", 1883, in_prefix=inp, out_prefix=outp)
    t = loop.create_task(tr.connect())
    loop.run_until_idle(100)
    if not t.done():
        res.violate(PROP, "connect", "hang", "")
        return
    injected_fail = bool(scn.get("tapes", {}).get("mqtt.connect.fail")) or any(scn.get("tapes", {}).get("mqtt.subscribe.fail", []))
    if _exc(t) is not None:
        res.probes["connect_failed"] += 1
        if not isinstance(_exc(t), TransportError):
            res.violate(PROP, "connect", f"error:{type(_exc(t)).__name__}", repr(_exc(t))[:200])
        elif not injected_fail:
            res.violate(PROP, "connect", "failed-without-fault", repr(_exc(t))[:200])
        res.nontrivial_key = "C18:" + w.elog.digest()[:24]
        # the application retries on the SAME object once the broker is reachable again: a connect that succeeds
        # must subscribe for all five commands, whatever the failed attempt left behind
        w.tapes = Tapes({})
        t2 = loop.create_task(tr.connect())
        loop.run_until_idle(100)
        if t2.done() and _exc(t2) is None:
            res.probes["retry_after_failed_connect"] += 1
            deaf = []
            for cmd in range(5):
                child = 255 if cmd in (3, 4) else 1
                ok = broker.inject(f"{inp}/9/{child}/{cmd}/0/1", b"7")
                tr2 = loop.create_task(tr.read())
                loop.run_until_idle(10)
                got = None
                if tr2.done() and _exc(tr2) is None:
                    got = tr2.result().rstrip("\n")
                elif not tr2.done():
                    tr2.cancel()
                    loop.run_until_idle(0)
                if not ok or got != f"9;{child};{cmd};0;1;7":
                    deaf.append((cmd, ok, got))
            if deaf:
                res.violate(PROP, "reconnect", "deaf-after-retried-connect",
                            f"(command, broker had a matching subscription, line read): {deaf}")
            t3 = loop.create_task(tr.disconnect())
            loop.run_until_idle(100)
            if not t3.done() or _exc(t3) is not None:
                res.violate(PROP, "disconnect", f"raised:{type(_exc(t3)).__name__ if t3.done() else 'hang'}:after-retry", "")
        elif not t2.done():
            t2.cancel()
            loop.run_until_idle(0)
        return
    t0 = loop.time()
    results = []
    expected = []  # ("line", text) | ("err",)
    expected_at = []  # when each of them reached the client
    state = {"reader_blocked": False, "dropped": False, "delivered": 0}

    async def reader():
        dt = cfg["read_start"]
        if dt:
            await asyncio.sleep(dt)
        for _ in range(cfg["reads"]):
            state["reader_blocked"] = True
            try:
                line = await tr.read()
            except asyncio.CancelledError:
                raise
            except BaseException as exc:  # noqa: BLE001
                results.append(("err", exc))
                w.log("reader", "raised", type(exc).__name__)
            else:
                results.append(("ok", line))
                w.log("reader", "line", line)
            state["reader_blocked"] = False

    async def broker_actor():
        for ev in scn["events"]:
            dt = t0 + ev["at"] - loop.time()
            if dt > 0:
                await asyncio.sleep(dt)
            if not broker.connected:
                break
            if ev["op"] == "msg":
                f = ev["f"]
                payload = bytes.fromhex(ev["payload"])
                topic = f"{inp}/{f[0]}/{f[1]}/{f[2]}/{f[3]}/{f[4]}"
                if b";" in payload:
                    res.probes["payload_with_semicolon"] += 1
                if b"/" in payload:
                    res.probes["payload_with_slash"] += 1
                if payload == b"":
                    res.probes["payload_empty"] += 1
                ok = broker.inject(topic, payload, f[3])
                if not ok:
                    res.violate(PROP, "subscriptions", f"not-subscribed:cmd{f[2]}",
                                f"topic {topic} not matched by {broker.subscriptions}")
                    continue
                want = _expect_line(f, payload)
                if want is None:
                    res.probes["payload_binary"] += 1
                expected.append(("line", want) if want is not None else ("err",))
                expected_at.append(loop.time() - t0)
            elif ev["op"] == "drop":
                res.probes["broker_drop"] += 1
                broker.drop_connection()
                state["dropped"] = True
                expected.append(("err",))
                expected_at.append(loop.time() - t0)
                break
            elif ev["op"] == "foreign":
                # a topic outside '<in>/+/+/0-4/+/+': must not be delivered as a line if it does not match
                if any(topic_matches(fl, ev["topic"]) for fl, _ in broker.subscriptions):
                    parts = ev["topic"].split("/")
                    broker.inject(ev["topic"], b"1", 0)
                    expected.append(("line", ";".join(parts[-5:]) + ";1"))
                    expected_at.append(loop.time() - t0)

    wres = []
    started = []

    async def writer():
        for wr in scn["writes"]:
            dt = t0 + wr["at"] - loop.time()
            if dt > 0:
                await asyncio.sleep(dt)
            n0 = len(broker.published)
            wr = dict(wr, started=loop.time() - t0)
            started.append(wr["started"])
            try:
                await tr.write(wr["line"])
            except asyncio.CancelledError:
                raise
            except BaseException as exc:  # noqa: BLE001
                wres.append(("err", exc, wr["line"], n0))
            else:
                wres.append(("ok", None, wr["line"], n0))

    disc = {"done": False, "exc": None, "blocked": None}

    async def disconnecter():
        dt = cfg["disconnect_at"]
        if dt:
            await asyncio.sleep(dt)
        disc["blocked"] = state["reader_blocked"]
        w.log("harness", "disconnect")
        try:
            await tr.disconnect()
        except BaseException as exc:  # noqa: BLE001
            disc["exc"] = exc
            w.log("harness", "disconnect-raised", type(exc).__name__)
        disc["done"] = True

    tasks = [loop.create_task(c) for c in (reader(), broker_actor(), writer(), disconnecter())]
    loop.run_until_idle(1000)
    # ---- disconnect oracle ----
    if not disc["done"]:
        res.violate(PROP, "disconnect", "hang", f"at +{cfg['disconnect_at']}")
    elif disc["exc"] is not None:
        exc = disc["exc"]
        when = "right-after-connect" if cfg["disconnect_at"] == 0 else "later"
        if not isinstance(exc, AIOMySensorsError):
            res.violate(PROP, "disconnect", f"raised:{type(exc).__name__}:{when}", repr(exc)[:200])
        elif cfg["disconnect_at"] == 0 and not scn.get("tapes", {}).get("mqtt.disconnect.fail"):
            res.violate(PROP, "disconnect", f"raised:{type(exc).__name__}:{when}", repr(exc)[:200])
    if cfg["disconnect_at"] == 0:
        res.probes["disconnect_right_after_connect"] += 1
    if disc["blocked"]:
        res.probes["disconnect_reader_blocked"] += 1
    # ---- reads oracle: FIFO, exactly once, no silent deafness ----
    for k, (kind, val) in enumerate(results):
        if kind == "err" and not isinstance(val, AIOMySensorsError):
            res.violate(PROP, "reads", f"non-library-error:{type(val).__name__}", repr(val)[:200])
    n = min(len(results), len(expected))
    fifo_ok = True
    for k in range(n):
        kind, val = results[k]
        ek = expected[k]
        if ek[0] == "line":
            if kind != "ok":
                res.violate(PROP, "reads", f"message-became-error:{type(val).__name__}", f"#{k} want {ek[1]!r} got {val!r}"[:300])
                fifo_ok = False
            elif val.rstrip("\n") != ek[1]:
                res.violate(PROP, "reads", "line-differs-or-out-of-order", f"#{k} want {ek[1]!r} got {val!r}")
                fifo_ok = False
        else:
            if kind != "err":
                res.violate(PROP, "reads", "error-event-returned-as-line", f"#{k} got {val!r}")
                fifo_ok = False
            elif not isinstance(val, TransportError):
                res.violate(PROP, "reads", f"error-event-not-transport-error:{type(val).__name__}", repr(val)[:200])
    if len(results) > len(expected):
        for kind, val in results[len(expected):]:
            res.violate(PROP, "reads", "phantom-read-result", f"{kind} {val!r}"[:200])
    if n >= 2 and fifo_ok:
        res.probes["reads_fifo"] += 1
    if scn.get("burst"):
        res.probes["burst_before_first_read"] += 1
    # non-progress: a reader is still blocked although events for it were delivered before the disconnect
    reader_t = tasks[0]
    if not reader_t.done() and len(results) < min(len(expected), cfg["reads"]):
        undelivered = len(expected) - len(results)
        # events that arrived before the transport was disconnected must reach the blocked reader
        # only events that reached the client strictly before the disconnect are owed to the blocked reader
        owed = [k for k, at in enumerate(expected_at) if at < cfg["disconnect_at"] - 0.01]
        undelivered = len([k for k in owed if k >= len(results)])
        if undelivered and cfg["read_start"] < cfg["disconnect_at"]:
            kinds = "binary-payload" if any(e[0] == "err" for e in expected[len(results):]) and not state["dropped"] else "event"
            res.violate(PROP, "never-silently-deaf", f"reader-blocked-with-undelivered-{kinds}",
                        f"{undelivered} broker events never reached read(); results={len(results)} expected={expected}"[:400])
    # ---- writes oracle ----
    for (kind, exc, line, n0), st in zip(wres, started):
        if st >= cfg["disconnect_at"] - 0.01:
            continue  # writing on a transport that was already disconnected: not specified for MQTT
        body = line.rstrip("\n")
        parts = body.split(";")
        want_topic = f"{outp}/" + "/".join(parts[:5])
        want_payload = ";".join(parts[5:])
        if kind == "err":
            if not isinstance(exc, AIOMySensorsError):
                res.violate(PROP, "write", f"raised:{type(exc).__name__}", f"{line!r}: {exc!r}"[:300])
            else:
                res.probes["publish_failed"] += 1
            continue
        pubs = broker.published[n0:n0 + 1] if len(broker.published) > n0 else []
        mine = [p for p in broker.published if p[0] == want_topic]
        if not mine:
            res.violate(PROP, "write", "not-published-to-mapped-topic", f"{line!r} want topic {want_topic}; published {broker.published}"[:400])
            continue
        ok = False
        for tpc, payload, qos, retain in mine:
            got = "" if payload is None else (payload.decode() if isinstance(payload, (bytes, bytearray)) else str(payload))
            if got == want_payload and qos == int(parts[3]):
                ok = True
        if not ok:
            res.violate(PROP, "write", "payload-or-qos-differs", f"{line!r} -> {mine}"[:300])
    for t in tasks:
        if not t.done():
            t.cancel()
    loop.run_until_idle(0)
    if not disc["done"] or (disc["exc"] is not None):
        # make sure nothing of this phase leaks into the next
        pass
    # ---- second session on the same object (a caller's reconnect loop), fault-free ----
    if cfg.get("second_session") and disc["done"]:
        res.probes["second_session"] += 1
        if scn.get("tapes", {}).get("mqtt.disconnect.fail"):
            res.probes["reconnect_after_failed_disconnect"] += 1
        w.tapes = Tapes({})
        t2 = loop.create_task(tr.connect())
        loop.run_until_idle(100)
        if not t2.done():
            res.violate(PROP, "reconnect", "connect-hang", "")
            t2.cancel()
        elif _exc(t2) is not None:
            res.violate(PROP, "reconnect", f"connect-raised:{type(_exc(t2)).__name__}", repr(_exc(t2))[:200])
        else:
            ok = broker.inject(f"{inp}/3/1/1/0/2", b"42")
            seen = []
            # events of the first session that were never read are still delivered first, in order
            for _ in range(len(expected) + 3):
                tr2 = loop.create_task(tr.read())
                loop.run_until_idle(10)
                if not tr2.done():
                    tr2.cancel()
                    loop.run_until_idle(0)
                    seen.append("hang")
                    break
                seen.append(repr(_exc(tr2)) if _exc(tr2) is not None else tr2.result().rstrip("\n"))
                if seen[-1] == "3;1;1;0;2;42":
                    break
            if not ok or seen[-1] != "3;1;1;0;2;42":
                res.violate(PROP, "reconnect", "second-session-deaf", f"inject={ok} reads={seen[-4:]}")
            t3 = loop.create_task(tr.disconnect())
            loop.run_until_idle(100)
            if not t3.done() or _exc(t3) is not None:
                res.violate(PROP, "disconnect", f"raised:{type(_exc(t3)).__name__ if t3.done() else 'hang'}:second-session", "")
    res.ops += len(scn["events"]) + len(scn["writes"]) + cfg["reads"]
    special = any(bytes.fromhex(e["payload"]) in (b"", b"\xff\xfe", b"\xc3") or b";" in bytes.fromhex(e["payload"])
                  for e in scn["events"] if e["op"] == "msg")
    if len(scn["events"]) >= 2 or w.faults or special:
        res.nontrivial_key = "C18:" + w.elog.digest()[:24]


def _phase_echo(scn, w, res):
    """A message sent through MQTT and echoed under the in-prefix decodes to the same message."""
    loop = w.loop
    cfg = scn["cfg"]
    broker = SimBroker(w)
    _mq.AsyncioClient = make_client_class(broker)
    w.tapes = Tapes({})  # fault-free phase
    broker.echo = (cfg["out"], cfg["in"])
    tr = _mq.MQTTClient("broker.sim", 1883, in_prefix=cfg["in"], out_prefix=cfg["out"])
    gw = Gateway(tr)
    gw.protocol_version = "2.2"
    node = Node(1, 17, "2.2")
    node.children[0] = Child(0, 3)
    gw.nodes[1] = node
    got = []

    async def main():
        await tr.connect()
        gen = gw.listen()
        for f in scn["echo"]:
            try:
                await gw.send(Message(*f), message_buffer=False)
            except Exception as exc:  # noqa: BLE001
                got.append(("send-err", exc))
                continue
            try:
                msg = await asyncio.wait_for(gen.__anext__(), 50)
                got.append(("ok", (msg.node_id, msg.child_id, msg.command, msg.ack, msg.message_type, msg.payload)))
            except Exception as exc:  # noqa: BLE001
                got.append(("listen-err", exc))
                gen = gw.listen()
        await gen.aclose()
        try:
            await tr.disconnect()
        except BaseException as exc:  # noqa: BLE001
            got.append(("disconnect-err", exc))

    t = loop.create_task(main())
    loop.run_until_idle(1000)
    if not t.done():
        res.violate(PROP, "echo", "hang", "")
        t.cancel()
        loop.run_until_idle(0)
        return
    if _exc(t) is not None:
        raise _exc(t)
    k = 0
    for f, (kind, val) in zip(scn["echo"], got):
        if kind == "ok":
            res.probes["echo_roundtrip"] += 1
            if tuple(val) != tuple(f):
                res.violate(PROP, "echo", "message-differs", f"sent {f} echoed {val}")
        elif kind == "send-err":
            site = "payload-with-delimiter" if ";" in f[5] else "other"
            res.violate(PROP, "echo", f"send-raised:{type(val).__name__}:{site}", f"{f}: {val!r}"[:300])
        elif kind == "listen-err":
            res.violate(PROP, "echo", f"listen-raised:{type(val).__name__}", f"{f}: {val!r}"[:300])
    for kind, val in got[len(scn["echo"]):]:
        if kind == "disconnect-err" and not isinstance(val, AIOMySensorsError):
            res.violate(PROP, "disconnect", f"raised:{type(val).__name__}:after-echo", repr(val)[:200])


def _phase_hooks(scn, w, res):
    """Hook-level contract of a concrete MQTTTransport subclass (documented _receive/_receive_error)."""
    loop = w.loop
    cfg = scn["cfg"]
    res.probes["hook_subclass"] += 1
    calls = []

    class T(_mq.MQTTTransport):
        async def _connect(self):
            calls.append(("connect",))

        async def _disconnect(self):
            calls.append(("disconnect",))

        async def _publish(self, topic, payload, qos):
            calls.append(("publish", topic, payload, qos))

        async def _subscribe(self, topic, qos):
            calls.append(("subscribe", topic, qos))

    tr = T(in_prefix=cfg["in"], out_prefix=cfg["out"])
    out = []

    async def main():
        await tr.connect()
        expected = []
        for ev in scn["events"]:
            if ev["op"] == "msg":
                f = ev["f"]
                try:
                    p = bytes.fromhex(ev["payload"]).decode()
                except UnicodeDecodeError:
                    continue
                tr._receive(f"{cfg['in']}/{f[0]}/{f[1]}/{f[2]}/{f[3]}/{f[4]}", p)
                expected.append(("line", f"{f[0]};{f[1]};{f[2]};{f[3]};{f[4]};{p}"))
            elif ev["op"] == "drop":
                tr._receive_error(_mq.TransportFailedError("sim"))
                expected.append(("err",))
        for e in expected:
            try:
                out.append(("ok", await tr.read()))
            except Exception as exc:  # noqa: BLE001
                out.append(("err", exc))
        for wr in scn["writes"]:
            try:
                await tr.write(wr["line"])
            except Exception as exc:  # noqa: BLE001
                out.append(("werr", exc, wr["line"]))
        await tr.disconnect()
        return expected

    t = loop.create_task(main())
    loop.run_until_idle(100)
    if not t.done():
        res.violate(PROP, "hooks", "hang", "")
        t.cancel()
        loop.run_until_idle(0)
        return
    if _exc(t) is not None:
        res.violate(PROP, "hooks", f"raised:{type(_exc(t)).__name__}", repr(_exc(t))[:200])
        return
    expected = t.result()
    reads = [o for o in out if o[0] in ("ok", "err")]
    for k, e in enumerate(expected):
        kind, val = reads[k][0], reads[k][1]
        if e[0] == "line" and (kind != "ok" or val.rstrip("\n") != e[1]):
            res.violate(PROP, "hooks", "read-differs-or-out-of-order", f"#{k} want {e[1]!r} got {val!r}"[:300])
        if e[0] == "err" and (kind != "err" or not isinstance(val, TransportError)):
            res.violate(PROP, "hooks", "error-not-delivered-in-order", f"#{k} got {kind} {val!r}"[:300])
    subs = [c for c in calls if c[0] == "subscribe"]
    for cmd in range(5):
        topic = f"{cfg['in']}/1/2/{cmd}/0/0"
        if not any(topic_matches(c[1], topic) for c in subs):
            res.violate(PROP, "hooks", f"not-subscribed:cmd{cmd}", f"{subs}")
    for o in out:
        if o[0] == "werr":
            site = "payload-with-delimiter" if o[2].count(";") > 5 else "other"
            res.violate(PROP, "hooks", f"write-raised:{type(o[1]).__name__}:{site}", f"{o[2]!r}: {o[1]!r}"[:300])
    pubs = [c for c in calls if c[0] == "publish"]
    okw = [wr for wr in scn["writes"] if not any(o[0] == "werr" and o[2] == wr["line"] for o in out)]
    for wr, pub in zip(okw, pubs):
        parts = wr["line"].rstrip("\n").split(";")
        want = (f"{cfg['out']}/" + "/".join(parts[:5]), ";".join(parts[5:]), int(parts[3]))
        if (pub[1], pub[2], pub[3]) != want:
            res.violate(PROP, "hooks", "publish-args-differ", f"want {want} got {pub[1:]}")

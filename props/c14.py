"""C14 — loading a persistence file fails only with the persistence read error.

Storage-fault injection at restart: the durable image handed to the next run
is corrupted (torn prefix, flipped byte, wrong JSON shape/type in any position,
arbitrary JSON, pathological nesting, undecodable bytes) or the raw device
fails on open/read/close.  Load must succeed or raise PersistenceReadError;
a missing file is created holding the current registry; an empty file loads
as an empty registry.
"""

from __future__ import annotations

import copy
import hashlib
import json
import random

from vsim import gen as G
from vsim.core import RunResult
from vsim.gw import gc_paused
from vsim.pworld import PATH, PWorld, build_nodes, legacy_image, native_image, snapshot

from aiomysensors.exceptions import PersistenceReadError  # noqa: E402
from aiomysensors.persistence import Persistence  # noqa: E402

PROP = "C14"
LEVEL = "exploration"
LEVEL_TEXT = ("Seeded corruptions of valid native/legacy images (every prefix of small images in the thorough tier, "
              "single byte flips, one-position JSON type/shape mutations with null/list/number/string/object/bool, "
              "missing and unknown fields, out-of-range values, bad keys), arbitrary JSON to depth 6, 100k-deep "
              "nesting, undecodable bytes, and raw-device OSErrors on open/read/close are loaded through the real "
              "aiofiles + io stack from the simulated disk; any outcome other than success or PersistenceReadError is "
              "a violation. Missing-file and empty-file rules are checked on the disk image. A fifth of the damaged files "
              "are loaded while the device refuses everything but reading (second open, any write): whatever a loader "
              "does besides reading may fail only as a library error.")
LEVEL_NOTE = ("Trusted: SimDisk. Write-side faults are outside this property's quantifier and are not injected here "
              "(the file created for a missing file is written fault-free).")
TECHNIQUE = "deterministic simulation: storage-fault injection at restart (corrupted durable image, device read errors)"
RULE = ("content = valid image x {prefix, byte flip, JSON position mutation} | arbitrary JSON | pathological | device "
        "fault; non-trivial iff the content is not a valid image; distinct = distinct (content, fault)")
REAL = ["aiomysensors.persistence.Persistence.load", "NodeSchema/ChildSchema", "json", "aiofiles wrappers",
        "io.TextIOWrapper/BufferedReader"]
STUB = ["event loop + thread pool (SimLoop.run_in_executor)", "OS file system (SimDisk/SimRawIO)"]
ASSUMPTIONS = ["SimDisk returns the injected bytes"]
REQUIRED_PROBES = ["prefix", "byteflip", "json_mutation", "arbitrary_json", "deep_nesting", "undecodable",
                   "device_error", "missing_file", "empty_file", "valid_image", "outcome_read_error", "outcome_ok"]


def budget(tier):
    return 6000 if tier == "quick" else 200_000


def wall(tier):
    return 90 if tier == "quick" else 1500


def rand_snap(rng):
    snap = {}
    for n in rng.sample([0, 1, 2, 9, 254], rng.randint(1, 3)):
        snap[n] = {"type": rng.choice([17, 18]), "version": rng.choice(["2.2.0", "1.4"]),
                   "sketch_name": rng.choice(["", "sk"]), "sketch_version": rng.choice(["", "1.0"]),
                   "battery": rng.choice([0, 50, 100]), "heartbeat": rng.choice([0, 5]), "sleeping": rng.random() < 0.3,
                   "children": {c: {"type": rng.choice([0, 6, 38]), "desc": rng.choice(["", "d"]),
                                    "values": {t: rng.choice(["1", "20.5", "on"])
                                               for t in rng.sample([0, 2, 47], rng.randint(0, 2))}}
                                for c in rng.sample([0, 1, 254], rng.randint(0, 2))}}
    return snap


REPLACEMENTS = [None, [], {}, 0, -1, 1.5, 101, 256, 10 ** 30, "x", "", "12", True, False, [1, 2], {"a": 1}, [[]],
                {"children": 1}, "null", "@HUGEINT@", "@HUGEINT@", "@NAN@", "@INF@", "@HUGEFLOAT@"]
RAW_LITERALS = {'"@HUGEINT@"': "9" * 4400, '"@NAN@"': "NaN", '"@INF@"': "-Infinity", '"@HUGEFLOAT@"': "1" + "0" * 400 + ".5"}


def paths_of(obj, path=()):
    yield path
    if isinstance(obj, dict):
        for k in obj:
            yield from paths_of(obj[k], path + (k,))
    elif isinstance(obj, list):
        for i, v in enumerate(obj):
            yield from paths_of(v, path + (i,))


def set_path(obj, path, val):
    if not path:
        return val
    obj = copy.deepcopy(obj)
    tgt = obj
    for p in path[:-1]:
        tgt = tgt[p]
    tgt[path[-1]] = val
    return obj


def del_path(obj, path):
    obj = copy.deepcopy(obj)
    tgt = obj
    for p in path[:-1]:
        tgt = tgt[p]
    del tgt[path[-1]]
    return obj


def rand_json(rng, depth):
    r = rng.random()
    if depth <= 0 or r < 0.35:
        return rng.choice([None, True, 0, -5, 1e300, "s", "", 255, "1"])
    if r < 0.65:
        return [rand_json(rng, depth - 1) for _ in range(rng.randint(0, 3))]
    return {rng.choice(["0", "1", "node_id", "children", "type", "x", "sensor_id", "values", "child_id"]):
            rand_json(rng, depth - 1) for _ in range(rng.randint(0, 3))}


def gen(seed: int, i: int, tier: str) -> dict:
    rng = random.Random(f"C14:{seed}:{i}")
    snap = rand_snap(rng)
    text = native_image(snap) if rng.random() < 0.7 else legacy_image(snap, null_strings=rng.random() < 0.5)
    kind = rng.choice(["prefix", "prefix", "byteflip", "json_mutation", "json_mutation", "json_mutation",
                       "arbitrary_json", "arbitrary_json", "deep_nesting" if rng.random() < 0.3 else "json_mutation", "undecodable", "device_error", "missing_file", "empty_file",
                       "valid_image"])
    fault = None
    content = text.encode()
    if tier == "thorough" and i < 3000:
        small = native_image({1: {"type": 17, "version": "2.0", "sketch_name": "", "sketch_version": "", "battery": 0,
                                  "heartbeat": 0, "sleeping": False,
                                  "children": {0: {"type": 6, "desc": "", "values": {0: "1"}}}}}).encode()
        if i < len(small):
            return {"kind": "prefix", "hex": small[:i].hex(), "fault": None, "registry": {}}
    if kind == "prefix":
        content = content[: rng.randint(0, len(content) - 1)]
    elif kind == "byteflip":
        k = rng.randrange(len(content))
        content = content[:k] + bytes([content[k] ^ (1 << rng.randrange(8))]) + content[k + 1:]
    elif kind == "json_mutation":
        data = json.loads(text)
        ps = list(paths_of(data))
        p = rng.choice(ps)
        r = rng.random()
        if r < 0.6 or not p:
            data = set_path(data, p, rng.choice(REPLACEMENTS))
        elif r < 0.8:
            data = del_path(data, p)
        else:
            parent = p[:-1]
            tgt = data
            for q in parent:
                tgt = tgt[q]
            if isinstance(tgt, dict):
                data = set_path(data, parent + (rng.choice(["unknown", "abc", "-1", "", "1e3", "256"]),),
                                rng.choice(REPLACEMENTS + [tgt[p[-1]]]))
        text2 = json.dumps(data)
        for k, v in RAW_LITERALS.items():
            text2 = text2.replace(k, v)
        content = text2.encode()
    elif kind == "arbitrary_json":
        content = json.dumps(rand_json(rng, 6)).encode()
        if rng.random() < 0.15:
            content = rng.choice([b"9" * 4400, b"[" + b"1" * 5000 + b"]", b'{"0": {"node_id": ' + b"7" * 4301 + b"}}",
                                  b"-" + b"3" * 4500, b"NaN", b'{"a": 1e999}'])
    elif kind == "deep_nesting":
        n = rng.choice([1000, 100_000])
        content = rng.choice([b"[" * n, b'{"0":' * n, b"[" * n + b"]" * n])
    elif kind == "undecodable":
        content = rng.choice([b"\xff\xfe{}", b"{\"0\": \"\xc3\"}", b"\x80", content[:10] + b"\xff" + content[10:],
                              "﻿{}".encode("utf-16")])
    elif kind == "device_error":
        fault = [rng.choice(["open", "read", "close"]), rng.choice(["EIO", "EACCES", "EMFILE", "EISDIR"])]
    elif kind == "empty_file":
        content = rng.choice([b"", b"", b" ", b"\n"])
    registry = {}
    if kind == "missing_file" and rng.random() < 0.5 or kind != "missing_file" and rng.random() < 0.3:
        registry = {str(k): v for k, v in rand_snap(rng).items()}
        for v in registry.values():
            v["children"] = {str(c): {"type": ch["type"], "desc": ch["desc"],
                                      "values": {str(t): x for t, x in ch["values"].items()}}
                             for c, ch in v["children"].items()}
    scn = {"kind": kind, "hex": content.hex(), "fault": fault, "registry": registry,
           "read_limit": rng.choice([None, None, 1, 9])}
    if fault is None and kind not in ("missing_file", "valid_image") and rng.random() < 0.2:
        # the disk is full / read-only while the damaged file is loaded: whatever the loader does BESIDES reading
        # (a copy of the broken file, a repaired file, a lock file ...) fails.  On the unchanged tree no such
        # operation exists and the fault never fires.
        scn["late_fault"] = rng.choice([["open", [0, "ENOSPC"]], ["open", [0, "EACCES"]], ["write", ["ENOSPC"]],
                                        ["write", ["EIO"]]])
    return scn


def run(scn) -> RunResult:
    res = RunResult()
    kind = scn["kind"]
    content = bytes.fromhex(scn["hex"])
    res.probes[kind] += 1
    with gc_paused():
        pw = PWorld({})
        try:
            if kind != "missing_file":
                pw.disk.files[PATH] = bytearray(content)
            if scn.get("fault"):
                pw.disk.fault_on[scn["fault"][0]] = [scn["fault"][1]]
            if scn.get("late_fault"):
                pw.disk.fault_on[scn["late_fault"][0]] = list(scn["late_fault"][1])
                res.probes["late_device_fault_armed"] += 1
            pw.disk.read_limit = scn.get("read_limit")
            nodes = build_nodes(scn.get("registry") or {})
            before = snapshot(nodes)
            outcome, val = pw.run(Persistence(nodes, PATH).load())
            res.ops += 1
            pw.log("harness", "outcome", outcome, type(val).__name__ if val is not None else None)
            if outcome == "ok":
                res.probes["outcome_ok"] += 1
            elif outcome == "err" and isinstance(val, PersistenceReadError):
                res.probes["outcome_read_error"] += 1
            elif outcome == "err" and scn.get("late_fault") and type(val).__name__ == "PersistenceWriteError":
                # a write the loader chose to do hit the injected write-side fault and was reported as the library's
                # write error: outside this property's statement (it speaks about what the file contains)
                res.probes["outcome_write_error_under_late_fault"] += 1
            elif outcome == "err":
                shape = kind + (":late-" + scn["late_fault"][0] + "-fault" if scn.get("late_fault") else "")
                res.violate(PROP, "only-persistence-read-error", f"{type(val).__name__}:{shape}",
                            f"{val!r} content={content[:200]!r}"[:500])
            else:
                res.violate(PROP, "only-persistence-read-error", f"{outcome}:{kind}", f"content={content[:100]!r}")
            if kind == "missing_file":
                if outcome != "ok":
                    res.violate(PROP, "missing-file-created", f"raised:{type(val).__name__ if val else outcome}", repr(val)[:200])
                else:
                    img = pw.disk.image(PATH)
                    if img is None:
                        res.violate(PROP, "missing-file-created", "not-created", "")
                    else:
                        again: dict = {}
                        o2, v2 = pw.run(Persistence(again, PATH).load())
                        if o2 != "ok" or snapshot(again) != before:
                            res.violate(PROP, "missing-file-created", "content-differs-from-registry",
                                        f"{o2} {v2!r} want {before} got {snapshot(again)}"[:500])
                    if snapshot(nodes) != before:
                        res.violate(PROP, "missing-file-created", "registry-changed", "")
            if kind == "empty_file" and content == b"":
                if outcome != "ok" or snapshot(nodes) != before:
                    res.violate(PROP, "empty-file-empty-registry", f"{outcome}:{'changed' if outcome == 'ok' else 'raised'}",
                                f"{val!r} registry before {sorted(before)} after {sorted(nodes)}"[:300])
        finally:
            res.digest = pw.elog.digest()
            res.vt = pw.loop.time()
            res.steps = pw.loop.steps
            res.faults.update(pw.faults)
            pw.close()
    if kind != "valid_image":
        res.nontrivial_key = "C14:" + hashlib.sha256(content + repr(scn.get("fault")).encode() + kind.encode()).hexdigest()[:24]
    return res

"""C17 — the serial/TCP transport delivers exactly the lines of the byte stream.

Real TCPTransport / SerialTransport + real asyncio streams on the simulated
byte link.  The peer's byte string (valid and invalid UTF-8, with and without
a final newline, possibly one over-long line) arrives in scenario-chosen chunks
at scenario-chosen instants while a reader task reads and a writer task writes;
faults: connect failures, EOF / reset at any byte (also during a blocked read),
write-side back-pressure then reset, write error, error on close.
"""

from __future__ import annotations

import asyncio
import random

from vsim.core import EventLog, RunResult, Tapes, use_repo, task_exc
from vsim.gw import gc_paused
from vsim.loop import new_loop
from vsim.streams import SimPeer, install_network, make_open_serial_connection

use_repo()
import aiomysensors.transport.serial as _serial_mod  # noqa: E402
from aiomysensors.exceptions import AIOMySensorsError, TransportError  # noqa: E402
from aiomysensors.transport.serial import SerialTransport  # noqa: E402
from aiomysensors.transport.tcp import TCPTransport  # noqa: E402

PROP = "C17"
LEVEL = "exploration"
LEVEL_TEXT = ("Seeded byte streams x chunkings x inter-chunk delays x fault positions on the real StreamTransport over a "
              "simulated byte link: successive reads must return exactly the newline-terminated lines in order, strict "
              "UTF-8 decoded; mid-line EOF, over-long line, undecodable bytes, reset (also while a read is blocked) "
              "must surface as TransportError subclasses; the peer must receive exactly the UTF-8 bytes of the written "
              "lines in call order (also under back-pressure); use before connect raises TransportError; disconnect "
              "absorbs OS-level close errors. All single-split chunkings of short streams are enumerated in the "
              "thorough tier.")
LEVEL_NOTE = ("Trusted: SimStreamTransport models the selector transport's observable contract (data_received, "
              "eof_received, connection_lost, pause/resume_writing). pyserial is a stub: the serial seam "
              "(open_serial_connection) returns the same simulated stream pair. After an over-long line nothing "
              "further is demanded.")
TECHNIQUE = "deterministic simulation: real asyncio streams on a simulated byte link with chunking/EOF/reset/back-pressure"
RULE = ("stream = 0-8 lines from a line alphabet (ASCII, multi-byte UTF-8, invalid UTF-8, empty, CR, long) with/without "
        "final newline; chunk sizes and delays from the tape; end event eof/reset/none at the end or mid-stream; writes "
        "interleaved; non-trivial iff a line was split across chunks or a fault fired; distinct = distinct event log")
REAL = ["aiomysensors.transport.StreamTransport/TCPTransport/SerialTransport", "asyncio.open_connection",
        "asyncio.StreamReader/StreamWriter/StreamReaderProtocol"]
STUB = ["event loop + kernel TCP (SimLoop.create_connection, SimStreamTransport)", "pyserial / pyserial-asyncio",
        "peer device (SimPeer)"]
ASSUMPTIONS = ["SimStreamTransport is faithful to asyncio's transport contract"]
REQUIRED_PROBES = ["line_split_across_chunks", "multibyte_split", "invalid_utf8", "eof_mid_line", "eof_clean",
                   "reset_during_blocked_read", "overlong_line", "backpressure_drain_blocked", "connect_failed",
                   "write_error", "close_error", "use_before_connect", "serial_kind", "tcp_kind", "non_ascii_write",
                   "close_raises_synchronously", "second_session"]
SHRINK_LISTS = ("lines", "chunks", "writes", "tapes")

LINES = [b"1;0;1;0;2;1", b"", b"0;255;3;0;9;log", "12;6;1;0;47;ünï".encode(), "7;1;1;0;47;温度".encode(),
         b"1;255;3;0;0;55\r", b"\xff\xfe", b"1;0;1;0;2;\xc3", b"\x80abc", b"a;b", b"1;0;1;0;47;" + b"x" * 300,
         "€".encode(), b"\x00", b"1;2", b"\xf0\x9f\x98\x80", b"\xed\xa0\x80", b"\xef\xbb\xbf1;255;0;0;17;2.3.2",
         b"\xef\xbb\xbf", b"\xef\xbb", b"1;0;1;0;47;\xef\xbb\xbfx", "\u2028;\x85".encode(), b"\x1c1;0;1;0;2;1\x1d"]


ERRNOS = {"ETIMEDOUT": 110, "EPIPE": 32, "EIO": 5, "ECONNABORTED": 103, "EHOSTUNREACH": 113, "ENETDOWN": 100,
          "EINTR": 4, "ECONNREFUSED": 111, "ENODEV": 19}


def _oserror(name):
    """The OS error a dying link surfaces with: OSError(errno, ...) picks the matching subclass (TimeoutError,
    BrokenPipeError, ConnectionAbortedError, InterruptedError ...); None = the default of the call site."""
    if name is None:
        return None
    return OSError(ERRNOS[name], f"sim: {name}")


def budget(tier):
    return 10000 if tier == "quick" else 1_200_000


def wall(tier):
    return 90 if tier == "quick" else 1500


def gen(seed: int, i: int, tier: str) -> dict:
    rng = random.Random(f"C17:{seed}:{i}")
    kind = rng.choice(["tcp", "serial"])
    lines = [rng.choice(LINES).hex() for _ in range(rng.randint(0, 8))]
    overlong = rng.random() < 0.05
    if overlong:
        lines.insert(rng.randint(0, len(lines)), "OVERLONG")
        lines.append(b"1;1;1;0;2;1".hex())
    final_newline = rng.random() < 0.7
    end = rng.choice(["eof", "eof", "reset", "none", "none"])
    total = sum((70000 if h == "OVERLONG" else len(h) // 2) + 1 for h in lines)
    chunks = []
    r = rng.random()
    if tier == "thorough" and i < 20000 and total <= 40:
        # single-split enumeration over short streams
        k = i % (total + 1)
        chunks = [k, total]
    elif r < 0.2:
        chunks = [1] * min(total, 200)
    elif r < 0.4:
        chunks = [total]
    else:
        chunks = [rng.choice([1, 2, 3, 5, 8, 13, 64, 1000, 70000]) for _ in range(rng.randint(1, 20))]
    delays = [rng.choice([0, 0, 0.5, 1, 3]) for _ in range(len(chunks))]
    writes = []
    if rng.random() < 0.6:
        for _ in range(rng.randint(1, 5)):
            writes.append({"at": rng.choice([0.0, 0.25, 1.25, 2.25, 6.25]),
                           "text": rng.choice(["1;0;1;0;2;1\n", "255;255;3;0;4;7\n", "3;1;1;0;47;åäö €\n",
                                               "0;255;3;0;2;\n", "9;9;1;0;47;" + "y" * rng.choice([10, 100]) + "\n"])})
        writes.sort(key=lambda w: w["at"])
    cfg = {"kind": kind, "final_newline": final_newline, "end": end,
           "end_after_chunk": rng.choice([None, None, None, rng.randint(0, max(0, len(chunks) - 1))]),
           "extra_reads": rng.choice([0, 1, 2]), "slow": rng.random() < 0.25, "high": rng.choice([4, 16, 64]),
           "consume_at": rng.choice([None, 3.5, 9.5]), "write_error_before": rng.choice([None, None, None, 0, 1]),
           "reset_at": rng.choice([None, None, None, 0.75, 2.75]) if writes else None,
           "errno": rng.choice([None, None] + sorted(ERRNOS)),
           "close_error": rng.choice([False] * 6 + ["async", "sync"]), "use_before_connect": rng.random() < 0.1,
           "limit": None, "second_session": rng.random() < 0.25}
    tapes = {}
    if rng.random() < 0.08:
        tapes["connect.fail"] = [rng.choice(["refused", "timeout", "unreachable", "gaierror"])]
    if rng.random() < 0.2:
        tapes["connect.lat"] = [rng.choice([1, 5])]
    return {"cfg": cfg, "lines": lines, "chunks": chunks, "delays": delays, "writes": writes, "tapes": tapes}


class World:
    def __init__(self, tapes):
        self.loop = new_loop()
        self.tapes = Tapes(tapes)
        self.elog = EventLog()
        from collections import Counter
        self.faults = Counter()

    def log(self, actor, kind, *args):
        return self.elog.add(self.loop.time(), actor, kind, *args)


def stream_bytes(scn) -> bytes:
    parts = [(b"z" * 70000 if h == "OVERLONG" else bytes.fromhex(h)) for h in scn["lines"]]
    s = b"\n".join(parts)
    if parts and scn["cfg"]["final_newline"]:
        s += b"\n"
    return s


def exc_name(e):
    return type(e).__name__


def run(scn) -> RunResult:
    res = RunResult()
    cfg = scn["cfg"]
    old_serial = _serial_mod.open_serial_connection
    with gc_paused():
        w = World(scn.get("tapes"))
        peer = SimPeer(w)
        try:
            install_network(w, peer)
            _serial_mod.open_serial_connection = make_open_serial_connection(w, peer)
            _run(scn, cfg, w, peer, res)
        finally:
            _serial_mod.open_serial_connection = old_serial
            res.digest = w.elog.digest()
            res.vt = w.loop.time()
            res.steps = w.loop.steps
            res.faults.update(w.faults)
            w.loop.shutdown()
    return res


def _run(scn, cfg, w, peer, res):
    loop = w.loop
    kind = cfg["kind"]
    res.probes["serial_kind" if kind == "serial" else "tcp_kind"] += 1
    tr = TCPTransport("gw.sim", 5003) if kind == "tcp" else SerialTransport("/dev/ttySIM0", 115200)
    S = stream_bytes(scn)

    def must_be_transport_error(what, exc, site):
        if not isinstance(exc, TransportError):
            res.violate(PROP, what, f"{site}:{exc_name(exc)}", f"{exc!r}"[:300])

    def run_coro(coro, horizon=1000.0):
        t = loop.create_task(coro)
        loop.run_until_idle(horizon)
        return t

    # ---- use before connect ----
    if cfg["use_before_connect"]:
        res.probes["use_before_connect"] += 1
        for name, coro in (("read", tr.read()), ("write", tr.write("1;0;1;0;2;1\n"))):
            t = run_coro(coro)
            if not t.done():
                res.violate(PROP, "use-before-connect", f"{name}:hang", "")
                t.cancel()
            elif task_exc(t) is None:
                res.violate(PROP, "use-before-connect", f"{name}:returned", repr(t.result()))
            else:
                must_be_transport_error("use-before-connect", task_exc(t), name)
        t = run_coro(tr.disconnect())
        if not t.done() or task_exc(t) is not None:
            res.violate(PROP, "use-before-connect", "disconnect-raised", repr(task_exc(t) if t.done() else "hang"))

    # ---- connect ----
    t = run_coro(tr.connect())
    if not t.done():
        res.violate(PROP, "connect", "hang", "")
        return
    if task_exc(t) is not None:
        res.probes["connect_failed"] += 1
        must_be_transport_error("connect", task_exc(t), "connect-error")
        if not scn.get("tapes", {}).get("connect.fail"):
            res.violate(PROP, "connect", "failed-without-fault", repr(task_exc(t)))
        res.nontrivial_key = "C17:" + w.elog.digest()[:24]
        return
    if scn.get("tapes", {}).get("connect.fail"):
        res.violate(PROP, "connect", "succeeded-despite-fault", "")
        return
    peer.slow_consumer = bool(cfg["slow"])
    peer.transport.set_write_buffer_limits(high=cfg["high"], low=max(1, cfg["high"] // 4))
    t0 = loop.time()

    # ---- expected reads ----
    complete = S.split(b"\n")
    remainder = complete.pop()  # bytes after the last newline
    chunks = list(scn["chunks"])
    delays = list(scn["delays"])
    # where does the stream end for the reader?
    end_after = cfg["end_after_chunk"]
    pos = 0
    delivered = bytearray()
    plan = []  # (delay, bytes)
    for k, size in enumerate(chunks):
        if pos >= len(S):
            break
        piece = S[pos:pos + size]
        pos += len(piece)
        plan.append((delays[k] if k < len(delays) else 0, piece))
        if end_after is not None and k == end_after:
            break
    if end_after is None and pos < len(S):
        plan.append((0, S[pos:]))
    D = b"".join(p for _, p in plan)  # what actually arrives
    d_complete = D.split(b"\n")
    d_rest = d_complete.pop()
    n_reads = len(d_complete) + cfg["extra_reads"] + (1 if cfg["end"] != "none" else 0)
    results = []  # ("ok", str) | ("err", exc)
    reader_state = {"blocked_at_end_event": False, "reading": False}

    async def reader():
        for _ in range(n_reads):
            reader_state["reading"] = True
            try:
                line = await tr.read()
            except asyncio.CancelledError:
                raise
            except BaseException as exc:  # noqa: BLE001
                results.append(("err", exc))
                w.log("reader", "raised", exc_name(exc))
            else:
                results.append(("ok", line))
                w.log("reader", "line", line)
            reader_state["reading"] = False

    async def device():
        for delay, piece in plan:
            if delay:
                await asyncio.sleep(delay)
            peer.send(piece)
        await asyncio.sleep(0.125)
        if cfg["end"] == "eof":
            reader_state["blocked_at_end_event"] = reader_state["reading"]
            peer.send_eof()
        elif cfg["end"] == "reset" and cfg["reset_at"] is None:
            reader_state["blocked_at_end_event"] = reader_state["reading"]
            peer.reset(_oserror(cfg.get("errno")))

    wresults = []

    async def writer():
        for k, wr in enumerate(scn["writes"]):
            dt = t0 + wr["at"] - loop.time()
            if dt > 0:
                await asyncio.sleep(dt)
            if cfg["write_error_before"] == k:
                peer.write_error = _oserror(cfg.get("errno")) or BrokenPipeError(32, "sim: broken pipe")
            before = len(peer.received)
            w.log("writer", "write", wr["text"])
            try:
                await tr.write(wr["text"])
            except asyncio.CancelledError:
                raise
            except BaseException as exc:  # noqa: BLE001
                wresults.append(("err", exc, wr["text"], before))
                w.log("writer", "raised", exc_name(exc))
            else:
                wresults.append(("ok", None, wr["text"], before))

    async def consumer():
        if cfg["consume_at"] is not None:
            await asyncio.sleep(cfg["consume_at"])
            peer.consume()

    async def resetter():
        if cfg["reset_at"] is not None:
            await asyncio.sleep(cfg["reset_at"])
            reader_state["blocked_at_end_event"] = reader_state["reading"]
            peer.reset(_oserror(cfg.get("errno")))

    tasks = [loop.create_task(c) for c in (reader(), device(), writer(), consumer(), resetter())]
    loop.run_until_idle(10_000)
    blocked_writer = not tasks[2].done()
    if blocked_writer:
        res.probes["backpressure_drain_blocked"] += 1
        for _ in range(len(scn["writes"]) + 2):
            if tasks[2].done():
                break
            peer.consume()
            loop.run_until_idle(10_000)
        if not tasks[2].done():
            res.violate(PROP, "write", "drain-never-released", "writer still blocked after the peer consumed everything")
    # ---- reads oracle ----
    reset_mid = cfg["reset_at"] is not None or cfg["write_error_before"] is not None
    idx = 0
    stop_checking = False
    for k, line_bytes in enumerate(d_complete):
        if idx >= len(results):
            break
        kind_r, val = results[idx]
        if len(line_bytes) + 1 > 2 ** 16:
            res.probes["overlong_line"] += 1
            if kind_r != "err":
                res.violate(PROP, "read", "overlong-line-returned", f"{len(val)} chars")
            else:
                must_be_transport_error("read", val, "overlong-line")
            # later reads may keep failing, but whatever they RETURN must be a line of the stream
            real = set()
            for lb in d_complete:
                try:
                    real.add((lb + b"\n").decode("utf-8", "strict"))
                except UnicodeDecodeError:
                    pass
            for kr, v in results[idx + 1:]:
                if kr == "ok" and v not in real:
                    res.violate(PROP, "read", "phantom-line-after-overlong", f"{v[:60]!r} ({len(v)} chars) is not a line of the stream")
                elif kr == "err" and not isinstance(v, AIOMySensorsError):
                    res.violate(PROP, "read", f"non-library-error:{exc_name(v)}", "after an over-long line")
            stop_checking = True
            break
        try:
            want = (line_bytes + b"\n").decode("utf-8", "strict")
        except UnicodeDecodeError:
            want = None
            res.probes["invalid_utf8"] += 1
        if kind_r == "err" and reset_mid and isinstance(val, TransportError) and want is not None:
            # the connection was torn down by a write-side fault before this line was read
            stop_checking = True
            break
        if want is None:
            if kind_r != "err":
                res.violate(PROP, "read", "undecodable-line-returned", f"{line_bytes!r} -> {val!r}")
            else:
                must_be_transport_error("read", val, "undecodable-line")
        elif kind_r != "ok":
            if isinstance(val, TransportError) and cfg["end"] == "reset":
                stop_checking = True  # a reset may overtake buffered lines
                break
            res.violate(PROP, "read", f"line-lost:{exc_name(val)}", f"line {k} {line_bytes!r}: {val!r}"[:300])
            if not isinstance(val, AIOMySensorsError):
                res.violate(PROP, "read", f"non-library-error:{exc_name(val)}", f"{line_bytes!r}")
        elif val != want:
            res.violate(PROP, "read", "line-differs", f"line {k}: want {want!r} got {val!r}")
        idx += 1
    if not stop_checking and len(d_rest) >= 2 ** 16:
        # an unterminated over-long tail: reads fail with a transport error from here on
        res.probes["overlong_line"] += 1
        for kind_r, val in results[idx:]:
            if kind_r == "ok":
                res.violate(PROP, "read", "overlong-line-returned", f"{len(val)} chars")
            else:
                must_be_transport_error("read", val, "overlong-line")
        stop_checking = True
    if not stop_checking:
        rest = results[idx:]
        if idx < len(d_complete) and not tasks[0].done() and not reset_mid:
            res.violate(PROP, "read", "hang-with-complete-line", f"{len(d_complete) - idx} lines undelivered")
        if cfg["end"] == "none" and not reset_mid:
            if rest:
                for kind_r, val in rest:
                    if kind_r == "ok":
                        res.violate(PROP, "read", "phantom-line", repr(val))
                    else:
                        res.violate(PROP, "read", f"spurious-error:{exc_name(val)}", repr(val)[:200])
        else:
            if cfg["end"] == "eof" and not reset_mid:
                res.probes["eof_mid_line" if d_rest else "eof_clean"] += 1
            for kind_r, val in rest:
                if kind_r == "ok":
                    res.violate(PROP, "read", "returned-after-end", f"{val!r} (rest={d_rest!r}, end={cfg['end']})")
                else:
                    must_be_transport_error("read", val, f"after-{cfg['end'] if not reset_mid else 'reset'}")
            if not rest and n_reads > len(d_complete) and not tasks[0].done() and (cfg["end"] != "none" or reset_mid) \
                    and peer.connected is False:
                res.violate(PROP, "read", "hang-after-end", f"end={cfg['end']} reader blocked forever")
    if reader_state["blocked_at_end_event"] and (cfg["end"] == "reset" or cfg["reset_at"] is not None):
        res.probes["reset_during_blocked_read"] += 1
    for kind_r, val in results:
        if kind_r == "err" and not isinstance(val, AIOMySensorsError):
            res.violate(PROP, "read", f"non-library-error:{exc_name(val)}", repr(val)[:200])
    # ---- writes oracle ----
    expect = bytearray()
    broken = False
    for k, (kind_w, exc, text, before) in enumerate(wresults):
        if not text.isascii():
            res.probes["non_ascii_write"] += 1
        if kind_w == "ok":
            expect += text.encode("utf-8")
            if broken and not reset_mid:
                pass
        else:
            broken = True
            if cfg["write_error_before"] == k:
                res.probes["write_error"] += 1
            must_be_transport_error("write", exc, "io-error")
            if cfg["write_error_before"] is None and cfg["reset_at"] is None and cfg["end"] == "none":
                res.violate(PROP, "write", f"failed-without-fault:{exc_name(exc)}", text)
    got = bytes(peer.received)
    if not broken and cfg["reset_at"] is None and cfg["end"] != "reset" and cfg["end"] != "eof":
        if got != bytes(expect):
            res.violate(PROP, "write", "peer-bytes-differ", f"want {bytes(expect)!r} got {got!r}"[:400])
    else:
        # after a teardown: what arrived must be a prefix-compatible concatenation of whole written lines
        allw = b"".join(t.encode() for _, _, t, _ in wresults)
        if not allw.startswith(got) and not got.startswith(bytes(expect)):
            res.violate(PROP, "write", "peer-bytes-garbled", f"written {allw!r} got {got!r}"[:400])
    # ---- disconnect ----
    for t in tasks:
        if not t.done():
            t.cancel()
    loop.run_until_idle(0)
    if cfg["close_error"] == "sync":
        peer.close_raises = OSError(9, "sim: bad file descriptor on close")
    elif cfg["close_error"]:
        peer.close_error = OSError(5, "sim: I/O error on close")
    t = run_coro(tr.disconnect())
    if not t.done():
        res.violate(PROP, "disconnect", "hang", "")
    elif task_exc(t) is not None:
        res.violate(PROP, "disconnect", f"raised:{exc_name(task_exc(t))}", repr(task_exc(t))[:200])
    elif cfg["close_error"] and (w.faults.get("stream_close_error") or w.faults.get("stream_close_raises")):
        res.probes["close_error"] += 1
        if w.faults.get("stream_close_raises"):
            res.probes["close_raises_synchronously"] += 1
    # ---- a second session on the same transport object: what a caller's reconnect loop does ----
    if cfg.get("second_session") and t.done() and task_exc(t) is None:
        res.probes["second_session"] += 1
        peer2 = SimPeer(w, "peer2")
        install_network(w, peer2)
        _serial_mod.open_serial_connection = make_open_serial_connection(w, peer2)
        w.tapes = Tapes({})
        t2 = run_coro(tr.connect())
        if not t2.done() or task_exc(t2) is not None:
            res.violate(PROP, "reconnect", f"connect-failed:{exc_name(task_exc(t2)) if t2.done() else 'hang'}", "")
        elif not peer2.connected:
            res.violate(PROP, "reconnect", "no-new-connection-opened", "connect() after disconnect() returned without connecting")
        else:
            peer2.send("7;1;1;0;0;21.0\n7;2;1;".encode())
            peer2.send("0;1;50\n".encode())
            got = []
            for _ in range(2):
                tt = run_coro(tr.read())
                got.append(tt.result() if tt.done() and task_exc(tt) is None else
                           ("err:" + exc_name(task_exc(tt)) if tt.done() else "hang"))
                if not tt.done():
                    tt.cancel()
            if got != ["7;1;1;0;0;21.0\n", "7;2;1;0;1;50\n"]:
                res.violate(PROP, "reconnect", "second-session-reads-differ", f"got {got}")
            tw = run_coro(tr.write("9;9;1;0;2;1\n"))
            if not tw.done() or task_exc(tw) is not None or bytes(peer2.received) != b"9;9;1;0;2;1\n":
                res.violate(PROP, "reconnect", "second-session-write-lost",
                            f"peer got {bytes(peer2.received)!r} ({exc_name(task_exc(tw)) if tw.done() and task_exc(tw) else ''})")
            td = run_coro(tr.disconnect())
            if not td.done() or task_exc(td) is not None:
                res.violate(PROP, "disconnect", "second-session-disconnect-raised", "")
    # ---- probes ----
    off = 0
    bounds = set()
    for _, piece in plan:
        off += len(piece)
        bounds.add(off)
    p = 0
    split = False
    for lb in d_complete:
        for b in bounds:
            if p < b < p + len(lb) + 1:
                split = True
                res.probes["line_split_across_chunks"] += 1
                seg = D[p:p + len(lb)]
                cut = b - p
                if 0 < cut < len(seg) and (seg[cut] & 0xC0) == 0x80:
                    res.probes["multibyte_split"] += 1
                break
        p += len(lb) + 1
    res.ops = len(plan) + len(results) + len(wresults)
    if split or w.faults:
        res.nontrivial_key = "C17:" + w.elog.digest()[:24]

"""C08 — the sleep buffer loses nothing and repeats nothing when transport writes fail.

For each sampled buffered set (<=4 commands over one or two nodes) and wake
sequence, the positions of failing writes are ENUMERATED: every pattern of
fail/succeed (and fail-before / fail-after the suspension) over the first 7
release-write attempts, followed by fault-free wakes that must drain the rest.
"""

from __future__ import annotations

import random

from vsim import gen as G
from vsim.gwrun import execute

PROP = "C08"
LEVEL = "fault_enumeration"
LEVEL_TEXT = ("Per sampled (parked set, wake sequence) pair, all 2^7 fail/succeed patterns over the release-write "
              "attempts are executed (fault positions exhaustive per pair, pairs seeded); oracle: the listen step "
              "whose flush hit the fault raises a TransportError, the multiset of successfully written parked commands "
              "over the whole history equals the parked set (each exactly once), later fault-free wakes drain the rest.")
LEVEL_NOTE = ("Trusted: reference model; write faults are injected only on release writes (set commands); a failing "
              "write raises TransportFailedError either before or after its suspension, chosen per pair.")
TECHNIQUE = "deterministic simulation: exhaustive fault-position enumeration per seeded (buffer, wake-sequence) pair"
RULE = ("pair = (protocol, <=4 parked set commands over <=2 nodes incl. overwrites, 1-3 faulty wakes, sends between "
        "wakes); each pair x all 128 fail patterns of length 7; non-trivial iff at least one write actually failed "
        "while something was parked; distinct = distinct event log (patterns differing only in unconsumed tape positions count once)")
REAL = ["aiomysensors.Gateway.listen/send", "sleep buffer flush 2.0-2.2", "outgoing set handler"]
STUB = ["event loop (SimLoop)", "transport (SimTransport with fail tape)"]
ASSUMPTIONS = ["reference model is the oracle", "faults only on release writes"]
REQUIRED_PROBES = ["fail_first_write", "fail_middle_write", "fail_last_write", "two_failures_two_wakes",
                   "drained_after_faults", "send_between_faulty_wakes", "race_with_write_fault",
                   "stalled_link_full_stack"]
ASPECTS = ("send", "writes.", "outcome")
SHRINK_LISTS = ("ops", "tapes", "scn")
PATTERNS = 128
EXHAUSTIVE = False


def budget(tier):
    return PATTERNS * (80 if tier == "quick" else 4000)


def wall(tier):
    return 90 if tier == "quick" else 1500


def gen(seed: int, i: int, tier: str) -> dict:
    if i % 16 == 15:
        # write faults while application sends race with the release (schedule sub-world shared with C09)
        from props import c09
        inner = c09.gen(seed, i, tier)
        rng = random.Random(f"C08r:{seed}:{i}")
        inner["tapes"]["w.fail.set"] = [rng.choice([0, 1, 2, 2]) for _ in range(rng.randint(1, 5))]
        if not inner["tapes"].get("w.lat"):
            inner["tapes"]["w.lat"] = [2, 1, 2]
        return {"kind": "race", "scn": inner}
    pair, pattern = divmod(i, PATTERNS)
    rng = random.Random(f"C08:{seed}:{pair}")
    proto = rng.choice(G.PROTOS_2X)
    nodes = [1, 2][: rng.choice([1, 2])]
    keys = [(n, c, t) for n in nodes for c in (0, 1) for t in (2, 3)]
    ops = []
    for n in nodes:
        ops.append(["line", f"{n};255;0;0;17;{proto}\n"])
        for c in (0, 1):
            ops.append(["line", f"{n};{c};0;0;3;c\n"])
        ops.append(["line", G.wake_line(proto, n, 0)])
    v = 0
    for _ in range(rng.randint(1, 4)):
        k = rng.choice(keys)
        v += 1
        ops.append(["send", [k[0], k[1], 1, 0, k[2], f"v{v}"], True])
    for wk in range(rng.randint(1, 3)):
        ops.append(["line", G.wake_line(proto, rng.choice(nodes), wk + 1)])
        if rng.random() < 0.4:
            k = rng.choice(keys)
            v += 1
            ops.append(["send", [k[0], k[1], 1, 0, k[2], f"v{v}"], True])
        if rng.random() < 0.15:
            ops.append(["reenter"])  # the caller reconnects after the transport failure (same Gateway object)
    for n in nodes + nodes:
        ops.append(["line", G.wake_line(proto, n, 90)])
    if pattern == PATTERNS - 2 and rng.random() < 0.7:
        # this slot of the pair runs on the full TCP stack with a link that stalls but never fails: every parked
        # command must arrive exactly once and no failure may be reported
        return {"cfg": {"pin": proto, "link": "tcp"}, "ops": ops, "pattern": pattern,
                "tapes": {"link.stall": [rng.choice([0, 2, 15, 40]) for _ in range(6)], "link.chunk": [0, 3, 0, 5]}}
    kind = rng.choice([1, 2])
    fails = [kind if (pattern >> b) & 1 else 0 for b in range(7)]
    lat = [rng.choice([0, 1]) for _ in range(10)] if kind == 2 or rng.random() < 0.5 else []
    return {"cfg": {"pin": proto}, "ops": ops, "tapes": {"w.fail.set": fails, "w.lat": lat}, "pattern": pattern}


def run(scn):
    if scn.get("kind") == "race":
        from props import c09
        from vsim.core import RunResult
        inner = c09.run(scn["scn"])
        res = RunResult()
        res.digest, res.vt, res.steps, res.ops = inner.digest, inner.vt, inner.steps, inner.ops
        res.faults.update(inner.faults)
        if inner.faults.get("write_fail_early") or inner.faults.get("write_fail_late"):
            res.probes["race_with_write_fault"] += 1
            for v in inner.violations:
                if v.oracle in ("last-write-is-maximal-send", "not-written-more-often-than-sent"):
                    res.violate(PROP, "nothing-lost-nothing-repeated", f"{v.site}:send-racing-with-failing-release", v.detail)
            res.nontrivial_key = "C08r:" + inner.digest[:24]
        return res
    st = {"failed": 0, "fail_wakes": 0, "after_fault": False, "parked_left": False}

    def on_step(i, op, obs, disc, model, w, res):
        if obs is None:
            return
        if op[0] == "line":
            bad = [k for k, (ln, ok) in enumerate(obs.writes) if not ok]
            if bad:
                st["failed"] += len(bad)
                st["fail_wakes"] += 1
                node = int(op[1].split(";")[0])
                remaining = sum(1 for k in model.parked if k[0] == node)
                if bad[0] == 0:
                    res.probes["fail_first_write"] += 1
                if bad[0] > 0 and remaining > 1:
                    res.probes["fail_middle_write"] += 1
                if bad[0] > 0 and remaining == 1:
                    res.probes["fail_last_write"] += 1
                if st["fail_wakes"] >= 2:
                    res.probes["two_failures_two_wakes"] += 1
            elif st["failed"] and any(ok for _, ok in obs.writes):
                res.probes["drained_after_faults"] += 1
        elif op[0] == "send" and st["failed"]:
            res.probes["send_between_faulty_wakes"] += 1

    res = execute(scn, PROP, ASPECTS, on_step=on_step)
    if scn["cfg"].get("link") == "tcp":
        res.probes["stalled_link_full_stack"] += 1
        res.nontrivial_key = "C08t:" + res.digest[:24]
    if st["failed"]:
        res.nontrivial_key = "C08:" + res.digest[:24]  # distinct event logs (unused tape tail does not count)
    return res

"""C02 — the decoder accepts exactly the well-formed lines and decodes them literally.

Candid note (DESIGN section 4): this is a language-membership property, a pure
function of the input; the simulator's scheduling dimension adds nothing.  It is
decided here because its input space is exactly the output of the simulated
lossy/hostile link (truncation, merged lines, mangled fields), observed both at
MessageSchema.load (five protocols) and at Gateway.listen on the simulated
transport.
"""

from __future__ import annotations

import hashlib
import random

from vsim import gen as G
from vsim.gwrun import execute
from vsim.model import classify_line
from vsim.universe import gen_universe, run_universe

from marshmallow import ValidationError  # noqa: E402
from aiomysensors.model.message import Message, MessageSchema  # noqa: E402
from aiomysensors.model.protocol import get_protocol  # noqa: E402

PROP = "C02"
LEVEL = "exploration"
LEVEL_TEXT = ("Reference recogniser (MUST-ACCEPT / MUST-REJECT / EITHER for lexically unusual integers) compared with "
              "MessageSchema.load under all five protocols and with Gateway.listen, over: all 20 cross-field classes x "
              "boundary values, every prefix of sampled valid lines, 0-8 fields, each numeric field drawn from "
              "valid/boundary/negative/huge/non-numeric/empty/padded/signed/underscore/Unicode-digit classes; internal and "
              "stream commands on non-system children over all type numbers 0-40. "
              "Seeded sampling of an infinite language; the class grid itself is swept completely in the thorough tier. "
              "A fifth of the scenarios are mixed 'universe' histories of a living gateway (sends incl. refused ones, "
              "replies, version switches, re-entry between the lines): what is accepted may not depend on history.")
LEVEL_NOTE = ("Trusted: reference recogniser in vsim/model.py. Largely an input property: no schedule or fault should "
              "influence its truth (the universe share checks exactly that); inputs are produced by the simulated link's "
              "fault operators.")
TECHNIQUE = "deterministic simulation input space (link-fault operators) + reference recogniser as oracle"
RULE = ("lines = cross-field class grid + prefixes of valid lines + field-class mutations + literal corner cases; "
        "each line is decoded under 5 protocols directly and once through Gateway.listen; non-trivial iff the line is "
        "not a plain valid 6-field line; distinct = distinct line text")
REAL = ["MessageSchema.load (marshmallow)", "validators in model/message.py + const.py", "Gateway.listen error mapping"]
STUB = ["event loop (SimLoop)", "transport (SimTransport)"]
ASSUMPTIONS = ["reference recogniser is the oracle", "trailing whitespace per str.rstrip()"]
REQUIRED_PROBES = ["fields_2", "fields_3", "fields_4", "fields_5", "fields_0_1", "fields_7plus", "must_accept",
                   "must_reject", "either", "crossfield_reject", "idrequest_exception", "prefix_of_valid"]
ASPECTS = ("decode", "yield", "outcome")


def budget(tier):
    return 8000 if tier == "quick" else 120_000


def wall(tier):
    return 90 if tier == "quick" else 1500


def crossfield_grid():
    out = []
    for cmd in range(5):
        for child in ("255", "0", "7", "254"):
            for t in ("3", "4", "0", "2", "19"):
                for node in ("0", "1", "255"):
                    out.append(f"{node};{child};{cmd};0;{t};p\n")
    return out


GRID = crossfield_grid()


def gen(seed: int, i: int, tier: str) -> dict:
    rng = random.Random(f"C02:{seed}:{i}")
    lines = []
    if i % 5 == 4:
        # the decoder inside a living gateway: mixed histories with sends (also refused ones), replies, version
        # switches and re-entry in between - what is accepted may not depend on what happened before
        return gen_universe(rng, tier)
    if i < len(GRID) // 10 + 1:
        lines = [[ln, "grid"] for ln in GRID[i * 10:(i + 1) * 10]]
        return {"cfg": {"pin": rng.choice(G.PROTOS)}, "lines": lines}
    for _ in range(rng.randint(3, 12)):
        base = (f"{rng.choice(G.FIELD_VALUES['valid'][0])};{rng.choice(G.FIELD_VALUES['valid'][1])};"
                f"{rng.choice(G.FIELD_VALUES['valid'][2])};{rng.choice(G.FIELD_VALUES['valid'][3])};"
                f"{rng.choice(G.FIELD_VALUES['valid'][4])};{G.payload(rng, semi=True)}\n")
        r = rng.random()
        if rng.random() < 0.12:
            # internal and stream commands address child 255 whatever their type - the exception is the id
            # request/response pair and nothing else, in every protocol version
            base = (f"{rng.randint(0, 255)};{rng.choice([0, 1, 7, 100, 254])};{rng.choice([3, 3, 4])};{rng.choice([0, 1])};"
                    f"{rng.randint(0, 40)};{rng.choice(['', '1', 'x'])}\n")
            lines.append([base, "grid"])
            continue
        if rng.random() < 0.15:
            # id request / response may carry any child id (the cross-field exception)
            base = f"{rng.randint(0, 255)};{rng.randint(0, 255)};3;{rng.choice([0, 1])};{rng.choice([3, 4])};{rng.randint(1, 254)}\n"
            lines.append([base, "grid"])
            continue
        if r < 0.15:
            lines.append([base, "valid-mix"])
        elif r < 0.35:
            k = rng.randint(0, len(base) - 1)
            lines.append([base[:k] + "\n", "prefix"])
        else:
            text, tag = G.hostile(rng, base, None)
            # second mutation now and then
            if rng.random() < 0.3 and text.count(";") >= 4:
                parts, tag2 = G.field_mutation(rng, text.rstrip("\n").split(";"))
                text, tag = ";".join(parts) + "\n", tag + "+" + tag2
            lines.append([text, tag])
    # the link duplicates lines: the same text arriving again must decode to the same values again
    for _ in range(rng.randint(0, 3)):
        if lines:
            lines.insert(rng.randint(0, len(lines)), list(rng.choice(lines)))
    return {"cfg": {"pin": rng.choice(G.PROTOS)}, "lines": lines}


SHRINK_LISTS = ("lines", "ops", "tapes")


def run(scn):
    def keep(aspect, site):
        # the decoded values are also visible through the error the handler raises for them (node_id / child_id of
        # Missing*Error, which error class): dispatching on other values than the line spells is a decoding fault
        if aspect == "outcome":
            return "-wrong" in site or "Missing" in site or "Unsupported" in site
        return True

    if scn.get("kind") == "universe":
        return run_universe(scn, PROP, ASPECTS, keep=keep)
    scn2 = {"cfg": scn["cfg"], "ops": [["line", ln] for ln, _ in scn["lines"]]}
    res = execute(scn2, PROP, ASPECTS, keep=keep)
    h = hashlib.sha256(res.digest.encode())
    texts = []
    for text, tag in scn["lines"]:
        verdict, fields = classify_line(text)
        nf = len(text.rstrip().split(";"))
        res.probes[{0: "fields_0_1", 1: "fields_0_1"}.get(nf, f"fields_{nf}" if nf < 7 else "fields_7plus")] += 1
        res.probes[{"accept": "must_accept", "reject": "must_reject", "either": "either"}[verdict]] += 1
        if tag == "prefix":
            res.probes["prefix_of_valid"] += 1
        if tag == "grid":
            if verdict == "reject":
                res.probes["crossfield_reject"] += 1
            p = text.split(";")
            if p[2] == "3" and p[4] in ("3", "4") and p[1] != "255" and verdict == "accept":
                res.probes["idrequest_exception"] += 1
        for proto in G.PROTOS:
            schema = MessageSchema()
            schema.set_protocol(get_protocol(proto))
            try:
                msg = schema.load(text)
                out = ("ok", (msg.node_id, msg.child_id, msg.command, msg.ack, msg.message_type, msg.payload)
                       if isinstance(msg, Message) else ("ok", repr(msg)))
            except ValidationError:
                out = ("invalid",)
            except Exception as exc:  # noqa: BLE001
                out = ("exc", type(exc).__name__)
            h.update(repr((proto, out)).encode("utf-8", "backslashreplace"))
            if out[0] == "exc":
                res.violate(PROP, "load", f"rejected-by:{out[1]}:{min(nf, 7)}fields", f"{proto} {text!r}")
            elif verdict == "reject" and out[0] == "ok":
                res.violate(PROP, "load", "accepted-malformed", f"{proto} {text!r} -> {out[1]}")
            elif verdict == "accept" and out[0] == "invalid":
                res.violate(PROP, "load", "rejected-wellformed", f"{proto} {text!r}")
            elif out[0] == "ok" and fields is not None and tuple(out[1]) != fields:
                res.violate(PROP, "load", "decoded-fields-differ", f"{proto} {text!r}: want {fields} got {out[1]}")
        if not (verdict == "accept" and nf == 6 and tag in ("valid-mix",)):
            texts.append(text)
    res.digest = h.hexdigest()
    res.ops += 5 * len(scn["lines"])
    if texts:
        res.nontrivial_key = ("C02", tuple(texts))
    return res

"""C03 — the receive path raises only library errors, whatever arrives on the wire.

A lossy / hostile link (truncation, merged lines, mangled fields, junk,
absurd payloads for every handler that converts one, unknown type numbers,
transport read errors) in front of Gateway.listen, with the controller first
driven into the reachable state classes by a well-behaved prefix, and the
faulty traffic interleaved with well-formed traffic (usability afterwards is
checked against the reference model).  Byte-level sub-worlds (real TCP/serial
StreamTransport, MQTT receive path) are added by props/c03 once vsim.streams /
vsim.mqtt are available (kind="stream"/"mqtt").
"""

from __future__ import annotations

import random

from vsim import gen as G
from vsim.gwrun import execute

PROP = "C03"
LEVEL = "exploration"
LEVEL_TEXT = ("Every request for the next message under a hostile link must return or raise an AIOMySensorsError "
              "subclass; anything else (other exception class, unrequested CancelledError, hang at quiescence with "
              "input delivered, exception lost in the loop) is a violation. After each fault the next well-formed "
              "line must be handled exactly as the reference model predicts. Seeded over link-fault operators x "
              "absurd payloads x state classes x 5 protocols (+ byte noise on the real stream transports).")
LEVEL_NOTE = ("Trusted: reference model for the 'usable afterwards' half; absurd payloads re-synchronise only the "
              "attribute they may have touched. Fault-free traffic between faults is checked strictly.")
TECHNIQUE = "deterministic simulation: link-fault injection (garbage/truncation/merge/absurd payloads/read errors) + model"
RULE = ("well-behaved prefix reaching a state class, then 3-30 lines each either well-formed or produced by a link-"
        "fault operator; non-trivial iff >=1 faulty line was followed by >=1 well-formed line; distinct = distinct "
        "(config, op list)")
REAL = ["aiomysensors.Gateway.listen", "MessageSchema", "all incoming handlers", "StreamTransport.read (stream kind)"]
STUB = ["event loop (SimLoop)", "transport (SimTransport) / byte link (SimStreamTransport)"]
ASSUMPTIONS = ["reference model is the oracle for the usability half"]
REQUIRED_PROBES = ["absurd_battery", "absurd_heartbeat", "absurd_version", "short_line", "error_version_unknown",
                   "error_then_good_line", "unknown_internal_type", "read_error", "merged_lines"]
ASPECTS = ("outcome", "registry", "yield", "decode")


def budget(tier):
    return 4000 if tier == "quick" else 250_000


def wall(tier):
    return 90 if tier == "quick" else 1500


def good_line(rng, proto, nodes, children):
    n = rng.choice(nodes)
    r = rng.random()
    if r < 0.3:
        return f"{n};{rng.choice(children)};1;0;{rng.choice([0, 2, 3])};{G.payload(rng)}\n"
    if r < 0.45:
        return f"{n};255;0;0;17;{proto}\n"
    if r < 0.6:
        return f"{n};{rng.choice(children)};0;0;3;c\n"
    if r < 0.7:
        return f"{n};255;3;0;0;{rng.choice(['0', '50', '100'])}\n"
    if r < 0.8:
        return f"{n};255;3;0;11;sketch\n"
    if r < 0.9:
        return f"{n};255;3;0;{rng.choice([5, 7, 8, 10, 13])};\n"
    return f"{n};{rng.choice(children)};2;0;2;\n"


def gen(seed: int, i: int, tier: str) -> dict:
    rng = random.Random(f"C03:{seed}:{i}")
    proto = rng.choice(G.PROTOS)
    cfg = {"pin": proto if rng.random() < 0.6 else None}
    nodes = rng.sample([1, 2, 9, 100, 254], rng.randint(1, 3))
    children = [0, 1, 7]
    ops = []
    # well-behaved prefix: state classes version known/unknown, node/child known/unknown, sleeping or not
    for n in nodes[: rng.randint(0, len(nodes))]:
        ops.append(["line", f"{n};255;0;0;17;{proto}\n", "good"])
        if rng.random() < 0.7:
            ops.append(["line", f"{n};{rng.choice(children)};0;0;3;c\n", "good"])
        if proto in G.PROTOS_2X and cfg["pin"] and rng.random() < 0.4:
            ops.append(["line", G.wake_line(proto, n, 1), "good"])
    for _ in range(rng.randint(3, 30)):
        r = rng.random()
        base = good_line(rng, proto, nodes + [55], children)
        if r < 0.35:
            ops.append(["line", base, "good"])
        elif r < 0.5:
            text, tag = G.absurd_payload(rng, proto, rng.choice(nodes))
            ops.append(["line", text, tag])
        elif r < 0.55:
            t = rng.choice([-1, 15, 18, 29, 34, 40, 255, 9999999, -2 ** 31, 2 ** 63])
            cmd = rng.choice([3, 3, 4])
            ops.append(["line", f"{rng.choice(nodes)};255;{cmd};0;{t};x\n", "unknown-type"])
        elif r < 0.6:
            ops.append(["readerr", rng.choice(["TransportError", "TransportFailedError", "TransportReadError"])])
        elif r < 0.63:
            ops.append(["relisten"])
        else:
            text, tag = G.hostile(rng, base, good_line(rng, proto, nodes, children))
            ops.append(["line", text, tag])
    return {"cfg": cfg, "ops": ops}


def run(scn):
    st = {"fault_then_good": False, "last_fault": False}

    def on_step(i, op, obs, disc, model, w, res):
        if obs is None:
            return
        tag = op[2] if len(op) > 2 else op[0]
        if op[0] == "readerr":
            res.probes["read_error"] += 1
            st["last_fault"] = True
            return
        if obs.kind == "hang":
            res.violate(PROP, "returns-or-raises", f"hang:{tag.split('+')[0]}", f"op#{i} {op!r}")
        elif obs.kind == "stop":
            res.violate(PROP, "returns-or-raises", "generator-ended", f"op#{i} {op!r}")
        elif obs.kind == "err" and not obs.is_lib_error:
            cls = tag if tag.startswith("absurd") or tag in ("unknown-type", "good") else "malformed"
            res.violate(PROP, "only-library-errors", f"{obs.cls}:{cls}", f"op#{i} {op!r}")
        if tag == "absurd-type0":
            res.probes["absurd_battery"] += 1
        elif tag == "absurd-type22":
            res.probes["absurd_heartbeat"] += 1
        elif tag == "absurd-type2":
            res.probes["absurd_version"] += 1
        elif tag == "unknown-type":
            res.probes["unknown_internal_type"] += 1
        elif tag == "merged":
            res.probes["merged_lines"] += 1
        if op[0] == "line" and 2 <= len(op[1].rstrip().split(";")) <= 4:
            res.probes["short_line"] += 1
        if obs.kind == "err" and model.version is None:
            res.probes["error_version_unknown"] += 1
        if tag == "good":
            if st["last_fault"]:
                st["fault_then_good"] = True
                res.probes["error_then_good_line"] += 1
            st["last_fault"] = False
        elif obs.kind == "err":
            st["last_fault"] = True

    def keep(aspect, site):
        # own oracle above reports the exception classes; from the model keep the usability half
        if aspect == "decode":
            return False
        if aspect == "outcome" and "non-library" in site:
            return False
        return True

    res = execute(scn, PROP, ASPECTS, on_step=on_step, keep=keep)
    if st["fault_then_good"]:
        res.nontrivial_key = ("C03", scn["cfg"], scn["ops"])
    return res

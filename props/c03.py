"""C03 — the receive path raises only library errors, whatever arrives on the wire.

A lossy / hostile link (truncation, merged lines, mangled fields, junk,
absurd payloads for every handler that converts one, unknown type numbers,
transport read errors) in front of Gateway.listen, with the controller first
driven into the reachable state classes by a well-behaved prefix, and the
faulty traffic interleaved with well-formed traffic (usability afterwards is
checked against the reference model).  Byte-level sub-worlds (real TCP/serial
StreamTransport, MQTT receive path) are added by props/c03 once vsim.streams /
vsim.mqtt are available (kind="stream"/"mqtt").
"""

from __future__ import annotations

from vsim.core import task_exc  # noqa: E402

import random

from vsim import gen as G
from vsim.gwrun import execute

PROP = "C03"
LEVEL = "exploration"
LEVEL_TEXT = ("Every request for the next message under a hostile link must return or raise an AIOMySensorsError "
              "subclass; anything else (other exception class, unrequested CancelledError, hang at quiescence with "
              "input delivered, exception lost in the loop) is a violation. After each fault the next well-formed "
              "line must be handled exactly as the reference model predicts. Seeded over link-fault operators x "
              "absurd payloads x state classes x 5 protocols (+ byte noise on the real stream transports).")
LEVEL_NOTE = ("Trusted: reference model for the 'usable afterwards' half; absurd payloads re-synchronise only the "
              "attribute they may have touched. Fault-free traffic between faults is checked strictly.")
TECHNIQUE = "deterministic simulation: link-fault injection (garbage/truncation/merge/absurd payloads/read errors) + model"
RULE = ("well-behaved prefix reaching a state class, then 3-30 lines each either well-formed or produced by a link-"
        "fault operator; non-trivial iff >=1 faulty line was followed by >=1 well-formed line; distinct = distinct "
        "(config, op list)")
REAL = ["aiomysensors.Gateway.listen", "MessageSchema", "all incoming handlers", "StreamTransport.read (stream kind)"]
STUB = ["event loop (SimLoop)", "transport (SimTransport) / byte link (SimStreamTransport)"]
ASSUMPTIONS = ["reference model is the oracle for the usability half"]
SHRINK_LISTS = ("ops", "lines", "chunks", "scn")
REQUIRED_PROBES = ["race_subworld", "stream_noise_line", "mqtt_binary_payload", "stream_error_then_good_line", "absurd_battery", "absurd_heartbeat", "absurd_version", "short_line", "error_version_unknown",
                   "error_then_good_line", "unknown_internal_type", "read_error", "merged_lines"]
ASPECTS = ("outcome", "registry", "yield", "decode")


def budget(tier):
    return 12000 if tier == "quick" else 250_000


def wall(tier):
    return 90 if tier == "quick" else 1500


def good_line(rng, proto, nodes, children):
    n = rng.choice(nodes)
    r = rng.random()
    if r < 0.3:
        return f"{n};{rng.choice(children)};1;0;{rng.choice([0, 2, 3])};{G.payload(rng)}\n"
    if r < 0.45:
        return f"{n};255;0;0;17;{proto}\n"
    if r < 0.6:
        return f"{n};{rng.choice(children)};0;0;3;c\n"
    if r < 0.7:
        return f"{n};255;3;0;0;{rng.choice(['0', '50', '100'])}\n"
    if r < 0.8:
        return f"{n};255;3;0;11;sketch\n"
    if r < 0.9:
        return f"{n};255;3;0;{rng.choice([5, 7, 8, 10, 13])};\n"
    return f"{n};{rng.choice(children)};2;0;2;\n"


NOISE = [b"\xff\xfe", b"\x80", b"1;0;1;0;2;\xc3", b"\xf0\x9f", b"1;1;1;0;0;20.\xb0C", b"\x00\x01\x02", b"\xed\xa0\x80",
         b"0;255;3;0;9;\xe9t\xe9", b"\xfe" * 40, b"", b"\r", b"1;2"]


def gen_bytes(rng, i, kind):
    proto = rng.choice(G.PROTOS)
    lines = []
    if rng.random() < 0.6:
        lines += [[f"1;255;0;0;17;{proto}".encode().hex(), "good"], [b"1;0;0;0;3;c".hex(), "good"],
                  [b"1;1;0;0;3;c".hex(), "good"]]
    for _ in range(rng.randint(2, 12)):
        r = rng.random()
        base = good_line(rng, proto, [1, 2, 9], [0, 1, 7])
        if rng.random() < 0.12:
            # a value with raw bytes is set, later the node asks for it back (the reply has to be encoded again)
            t = rng.choice([2, 47, 48])
            lines.append([(f"1;{rng.choice([0, 1])};1;0;{t};".encode() + rng.choice([b"\xff\xfe\x01", b"20.\xb0C", b"\xc3"])).hex(), "noise"])
            lines.append([f"1;0;2;0;{t};".encode().hex(), "good"])
            lines.append([f"1;1;2;0;{t};".encode().hex(), "good"])
            continue
        if r < 0.35:
            lines.append([base.rstrip("\n").encode().hex(), "good"])
        elif r < 0.65:
            lines.append([rng.choice(NOISE).hex(), "noise"])
        elif r < 0.8:
            text, tag = G.absurd_payload(rng, proto, 1)
            lines.append([text.rstrip("\n").encode().hex(), tag])
        else:
            text, tag = G.hostile(rng, base, None)
            lines.append([text.rstrip("\n").replace("\n", " ").encode("utf-8", "replace").hex(), tag])
    return {"kind": kind, "cfg": {"pin": proto if rng.random() < 0.6 else None, "transport": rng.choice(["tcp", "serial"]),
                                  "end": rng.choice(["eof", "none", "reset", "none"])},
            "lines": lines, "chunks": [rng.choice([1, 2, 3, 7, 20, 1000]) for _ in range(rng.randint(1, 30))]}


def gen(seed: int, i: int, tier: str) -> dict:
    rng = random.Random(f"C03:{seed}:{i}")
    if i % 5 == 3:
        return gen_bytes(rng, i, "stream")
    if i % 10 == 9:
        return gen_bytes(rng, i, "mqtt")
    if i % 10 == 1:
        from vsim.universe import gen_universe
        return gen_universe(random.Random(f"U:C03:{seed}:{i}"), tier)
    if i % 10 == 7:
        # controller state "a flush is in progress while the application sends": schedule sub-world shared with C09
        from props import c09
        return {"kind": "race", "scn": c09.gen(seed, i, tier)}
    proto = rng.choice(G.PROTOS)
    cfg = {"pin": proto if rng.random() < 0.6 else None}
    nodes = rng.sample([1, 2, 9, 100, 254], rng.randint(1, 3))
    children = [0, 1, 7]
    ops = []
    # well-behaved prefix: state classes version known/unknown, node/child known/unknown, sleeping or not
    for n in nodes[: rng.randint(0, len(nodes))]:
        ops.append(["line", f"{n};255;0;0;17;{proto}\n", "good"])
        if rng.random() < 0.7:
            ops.append(["line", f"{n};{rng.choice(children)};0;0;3;c\n", "good"])
        if proto in G.PROTOS_2X and cfg["pin"] and rng.random() < 0.4:
            ops.append(["line", G.wake_line(proto, n, 1), "good"])
    for _ in range(rng.randint(3, 30)):
        r = rng.random()
        base = good_line(rng, proto, nodes + [55], children)
        if r < 0.35:
            ops.append(["line", base, "good"])
        elif r < 0.5:
            text, tag = G.absurd_payload(rng, proto, rng.choice(nodes))
            ops.append(["line", text, tag])
        elif r < 0.55:
            t = rng.choice([-1, 15, 18, 29, 34, 40, 255, 9999999, -2 ** 31, 2 ** 63])
            cmd = rng.choice([3, 3, 4])
            ops.append(["line", f"{rng.choice(nodes)};255;{cmd};0;{t};x\n", "unknown-type"])
        elif r < 0.6:
            ops.append(["readerr", rng.choice(["TransportError", "TransportFailedError", "TransportReadError"])])
        elif r < 0.63:
            ops.append(["relisten"])
        else:
            text, tag = G.hostile(rng, base, good_line(rng, proto, nodes, children))
            ops.append(["line", text, tag])
    return {"cfg": cfg, "ops": ops}


def run(scn):
    if scn.get("kind") in ("stream", "mqtt"):
        return run_bytes(scn)
    if scn.get("kind") == "universe":
        from vsim.universe import run_universe

        def on_step_u(i, op, obs, disc, model, w, res):
            if obs is None or op[0] != "line":
                return
            if obs.kind == "hang":
                res.violate(PROP, "returns-or-raises", "hang:universe", f"op#{i} {op!r}")
            elif obs.kind == "err" and not obs.is_lib_error:
                res.violate(PROP, "only-library-errors", f"{obs.cls}:universe", f"op#{i} {op!r}")

        return run_universe(scn, PROP, ("registry", "yield"), on_step=on_step_u)
    if scn.get("kind") == "race":
        from props import c09
        inner = c09.run(scn["scn"])
        from vsim.core import RunResult
        res = RunResult()
        res.digest, res.vt, res.steps, res.ops = inner.digest, inner.vt, inner.steps, inner.ops
        res.faults.update(inner.faults)
        res.probes["race_subworld"] += 1
        for v in inner.violations:
            if v.oracle == "no-unexpected-exception" and not v.site.endswith(("TransportFailedError", "TransportError")):
                res.violate(PROP, "only-library-errors", f"{v.site.split(':')[-1]}:during-concurrent-send", v.detail or v.site)
            elif v.oracle == "quiescence":
                res.violate(PROP, "returns-or-raises", "hang:during-concurrent-send", v.detail)
        res.nontrivial_key = inner.nontrivial_key
        return res
    st = {"fault_then_good": False, "last_fault": False}

    def on_step(i, op, obs, disc, model, w, res):
        if obs is None:
            return
        tag = op[2] if len(op) > 2 else op[0]
        if op[0] == "readerr":
            res.probes["read_error"] += 1
            st["last_fault"] = True
            return
        if obs.kind == "hang":
            res.violate(PROP, "returns-or-raises", f"hang:{tag.split('+')[0]}", f"op#{i} {op!r}")
        elif obs.kind == "stop":
            res.violate(PROP, "returns-or-raises", "generator-ended", f"op#{i} {op!r}")
        elif obs.kind == "err" and not obs.is_lib_error:
            cls = tag if tag.startswith("absurd") or tag in ("unknown-type", "good") else "malformed"
            res.violate(PROP, "only-library-errors", f"{obs.cls}:{cls}", f"op#{i} {op!r}")
        if tag == "absurd-type0":
            res.probes["absurd_battery"] += 1
        elif tag == "absurd-type22":
            res.probes["absurd_heartbeat"] += 1
        elif tag == "absurd-type2":
            res.probes["absurd_version"] += 1
        elif tag == "unknown-type":
            res.probes["unknown_internal_type"] += 1
        elif tag == "merged":
            res.probes["merged_lines"] += 1
        if op[0] == "line" and 2 <= len(op[1].rstrip().split(";")) <= 4:
            res.probes["short_line"] += 1
        if obs.kind == "err" and model.version is None:
            res.probes["error_version_unknown"] += 1
        if tag == "good":
            if st["last_fault"]:
                st["fault_then_good"] = True
                res.probes["error_then_good_line"] += 1
            st["last_fault"] = False
        elif obs.kind == "err":
            st["last_fault"] = True

    def keep(aspect, site):
        # own oracle above reports the exception classes; from the model keep the usability half
        if aspect == "decode":
            return False
        if aspect == "outcome" and "non-library" in site:
            return False
        return True

    res = execute(scn, PROP, ASPECTS, on_step=on_step, keep=keep)
    if st["fault_then_good"]:
        res.nontrivial_key = ("C03", scn["cfg"], scn["ops"])
    return res


# ---------------------------------------------------------------------------
# byte-level sub-worlds: real TCP/serial StreamTransport and MQTT receive path under the real Gateway
# ---------------------------------------------------------------------------
def run_bytes(scn):
    import asyncio
    from collections import Counter

    from vsim.core import EventLog, RunResult, Tapes
    from vsim.gw import TimeShim, gc_paused
    from vsim.loop import new_loop
    from vsim.mqtt import SimBroker, make_client_class
    from vsim.streams import SimPeer, install_network, make_open_serial_connection
    import aiomysensors.model.protocol.protocol_14 as p14
    import aiomysensors.transport.mqtt as mq
    import aiomysensors.transport.serial as ser
    from aiomysensors.exceptions import AIOMySensorsError
    from aiomysensors.gateway import Gateway
    from aiomysensors.transport.serial import SerialTransport
    from aiomysensors.transport.tcp import TCPTransport

    res = RunResult()
    cfg = scn["cfg"]

    class W:
        pass

    w = W()
    old_ser, old_cli, old_time = ser.open_serial_connection, mq.AsyncioClient, p14.time
    with gc_paused():
        w.loop = new_loop()
        w.tapes = Tapes({})
        w.elog = EventLog()
        w.faults = Counter()
        w.log = lambda actor, kind, *a: w.elog.add(w.loop.time(), actor, kind, *a)
        p14.time = TimeShim(lambda: 1_700_000_000 + int(w.loop.time()))
        loop = w.loop
        try:
            lines = [(bytes.fromhex(h), tag) for h, tag in scn["lines"]]
            if scn["kind"] == "stream":
                peer = SimPeer(w)
                install_network(w, peer)
                ser.open_serial_connection = make_open_serial_connection(w, peer)
                tr = TCPTransport("gw.sim") if cfg["transport"] == "tcp" else SerialTransport("/dev/ttySIM0")
            else:
                broker = SimBroker(w)
                mq.AsyncioClient = make_client_class(broker)
                tr = mq.MQTTClient("broker.sim")
            gw = Gateway(tr)
            if cfg["pin"]:
                gw.protocol_version = cfg["pin"]
            t = loop.create_task(tr.connect())
            loop.run_until_idle(10)
            if not t.done() or task_exc(t) is not None:
                raise RuntimeError(f"connect failed in a fault-free setup: {task_exc(t) if t.done() else 'hang'}")
            if scn["kind"] == "stream":
                data = b"".join(b + b"\n" for b, _ in lines)
                pos = 0
                for size in scn["chunks"]:
                    if pos >= len(data):
                        break
                    peer.send(data[pos:pos + size])
                    pos += size
                if pos < len(data):
                    peer.send(data[pos:])
                if cfg["end"] == "eof":
                    peer.send_eof()
            else:
                undelivered, undelivered_idx = set(), []
                for b, tag in lines:
                    parts = b.split(b";")
                    # the MQTT path carries the payload as bytes and the five fields in the topic
                    topic = "mygateway1-out/" + "/".join(["1", "0", "1", "0", "2"])
                    if len(parts) >= 6 and all(p.isdigit() and len(p) < 6 for p in parts[:5]) and 0 <= int(parts[2]) <= 4:
                        topic = "mygateway1-out/" + "/".join(x.decode() for x in parts[:5])
                        payload = b";".join(parts[5:])
                    else:
                        payload = b
                    if not broker.inject(topic, payload):
                        undelivered.add(len(undelivered_idx))
                    undelivered_idx.append(1)
                lines = [x for k, x in enumerate(lines) if k not in undelivered]
            last_err = False
            gen_ = gw.listen()
            for k, (b, tag) in enumerate(lines + ([(b"", "after-end")] if cfg["end"] != "none" and scn["kind"] == "stream" else [])):
                if cfg["end"] == "reset" and scn["kind"] == "stream" and k == len(lines) // 2:
                    peer.reset()
                task = loop.create_task(gen_.__anext__())
                loop.run_until_idle(5)
                res.ops += 1
                if tag == "noise":
                    res.probes["stream_noise_line" if scn["kind"] == "stream" else "mqtt_binary_payload"] += 1
                if not task.done():
                    task.cancel()
                    loop.run_until_idle(0)
                    gen_ = gw.listen()
                    if tag != "after-end" and cfg["end"] != "reset":
                        res.violate(PROP, "returns-or-raises", f"hang:{scn['kind']}:{tag.split('+')[0].split('-')[0]}",
                                    f"line #{k} {b[:60]!r} was delivered but listen never returned")
                    continue
                exc = task_exc(task) if not task.cancelled() else asyncio.CancelledError()
                if exc is None:
                    if last_err and tag == "good":
                        res.probes["stream_error_then_good_line"] += 1
                    last_err = False
                    continue
                last_err = True
                gen_ = gw.listen()
                if isinstance(exc, StopAsyncIteration):
                    res.violate(PROP, "returns-or-raises", f"generator-ended:{scn['kind']}", f"line #{k} {b[:60]!r}")
                elif not isinstance(exc, AIOMySensorsError):
                    cls = "noise" if tag == "noise" else ("absurd" if tag.startswith("absurd") else "text")
                    res.violate(PROP, "only-library-errors", f"{type(exc).__name__}:{scn['kind']}-{cls}",
                                f"line #{k} {b[:80]!r} ({tag}): {exc!r}"[:400])
            t2 = loop.create_task(gen_.aclose())
            loop.run_until_idle(0)
            t3 = loop.create_task(tr.disconnect())
            loop.run_until_idle(10)
        finally:
            ser.open_serial_connection, mq.AsyncioClient, p14.time = old_ser, old_cli, old_time
            res.digest = w.elog.digest()
            res.vt = w.loop.time()
            res.steps = w.loop.steps
            res.faults.update(w.faults)
            w.loop.shutdown()
    if any(tag != "good" for _, tag in scn["lines"]):
        res.nontrivial_key = "C03b:" + res.digest[:24]
    return res

"""C15 — a crash during save never destroys the previously saved registry.

Old registry saved; new registry being saved; the run is cut at raw-device
operation k for EVERY k of the save (open+truncate, each raw write including
short writes forced by a small device write limit, close, rename if one
appears), and for every write additionally torn at byte offsets; a fresh
Persistence object then loads the surviving image.  Crash = process death.
"""

from __future__ import annotations

import hashlib
import json
import random

from vsim.core import RunResult
from vsim.gw import gc_paused
from vsim.pworld import PATH, PWorld, build_nodes, native_image, snapshot

from aiomysensors.exceptions import PersistenceReadError  # noqa: E402
from aiomysensors.persistence import Persistence  # noqa: E402

PROP = "C15"
LEVEL = "fault_enumeration"
LEVEL_TEXT = ("For each seeded (old registry, new registry, device write limit) triple the raw-operation sequence of "
              "one save is first recorded, then the save is re-executed once per crash point: before every raw "
              "operation (exhaustive) and inside every raw write at byte offsets 1, middle, last-1 (torn write); after "
              "each crash a fresh Persistence loads the surviving image and the result must be the old or the new "
              "registry. Crash points exhaustive per triple, triples seeded. A fifth of the triples run in session mode "
              "(start -> saver -> registry changes -> stop, crash points over the whole raw-operation sequence). On "
              "every damaged image (and a sample of the others) the process is additionally restarted twice through a "
              "real Gateway context: a start on the surviving file must not change what the file loads to. Per triple "
              "also: the process dies inside the serialiser (a crash instant between raw operations), and - without any "
              "crash - a save that fails with an injected I/O error in the middle of its writes is followed by a "
              "successful save of the old registry, after which the file must load to it; in session mode the run "
              "without a crash must leave the registry as of the stop on the disk.")
LEVEL_NOTE = ("Crash model = process death: bytes handed to the raw device survive, user-space buffers (TextIOWrapper/"
              "BufferedWriter) do not. Power loss / fsync / directory-entry durability are out of scope. Raw operations "
              "are those of Python's io stack on the simulated device.")
TECHNIQUE = "deterministic simulation: exhaustive crash-point enumeration over the raw device operations of a save"
RULE = ("one evaluation = one seeded (old registry, new registry, device write limit) triple for which ALL crash points "
        "are executed (before each raw op k=0..K, and torn at 3 byte offsets inside every raw write); every triple is "
        "non-trivial (>= 4 crash points); distinct = distinct triple; the number of crash points executed is in "
        "probes.crash_points")
REAL = ["aiomysensors.persistence.Persistence.save/load", "NodeSchema", "aiofiles wrappers", "io.TextIOWrapper/BufferedWriter"]
STUB = ["event loop + thread pool (SimLoop.run_in_executor)", "OS file system (SimDisk/SimRawIO with crash cut)"]
ASSUMPTIONS = ["process-death crash model", "single writer"]
SHRINK_LISTS = ("points",)
REQUIRED_PROBES = ["crash_before_open", "crash_after_truncate", "crash_between_writes", "crash_torn_write",
                   "crash_before_close", "no_crash_reference", "post_crash_old", "post_crash_new", "session_mode"]


def budget(tier):
    return 400 if tier == "quick" else 25_000


class _NullTransport:
    """Stand-in link for the restarted process: this property is about the file, not the wire."""

    async def connect(self):
        pass

    async def disconnect(self):
        pass

    async def read(self):
        import asyncio
        await asyncio.sleep(10 ** 9)

    async def write(self, decoded_message):
        pass


def _dying(nodes: dict) -> dict:
    """The same registry, but the process dies while its first node is being serialised (its sketch name is read):
    a crash instant between raw device operations, wherever in its sequence the save happens to serialise."""
    from vsim.loop import SimCrash

    out = dict(nodes)
    for key, node in nodes.items():
        cls = type(node)

        class Dying(cls):  # type: ignore[misc, valid-type]
            @property
            def sketch_name(self):
                raise SimCrash

            @sketch_name.setter
            def sketch_name(self, value):
                pass

        clone = Dying.__new__(Dying)
        for attr in ("node_id", "node_type", "protocol_version", "children", "sketch_version", "battery_level",
                     "heartbeat", "reboot", "sleeping"):
            setattr(clone, attr, getattr(node, attr))
        out[key] = clone
        break
    return out


def _restarts(image, res, icls, first, detail):
    """The process is started again - twice - the way an application does it: a new Gateway on the surviving file,
    context entered and left.  "The file afterwards loads to the old or the new registry" also has to hold after a
    start that FAILED on a damaged file: a failed start may not make things worse (e.g. write an empty registry over
    the remains).  first = classification of the direct load of the surviving image."""
    from aiomysensors import Config, Gateway

    pw = PWorld({})
    try:
        if image is not None:
            pw.disk.files[PATH] = bytearray(image)
        seen = []
        for _ in range(2):
            async def start():
                gw = Gateway(_NullTransport(), Config(persistence_file=PATH))
                async with gw:
                    return snapshot(gw.nodes)
            o, v = pw.run(start(), horizon=100)
            if o == "ok":
                seen.append(("ok", v))
            else:
                seen.append(("read-error" if isinstance(v, PersistenceReadError)
                             else f"error:{type(v).__name__ if v is not None else o}", None))
        res.probes["restart_through_gateway"] += 1
        if seen[0][0] != "ok":
            res.probes["failed_start_then_second_start"] += 1
        if seen[0] != seen[1]:
            def name(x):
                return x[0] if x[0] != "ok" else ("empty-registry" if not x[1] else "registry")
            res.violate(PROP, "post-crash-restart", f"{icls}:{name(seen[0])}-then-{name(seen[1])}",
                        f"{detail}; direct load: {first}; first start {seen[0][0]}, second start {seen[1][0]} "
                        f"{sorted(seen[1][1]) if seen[1][1] is not None else ''}: a start on the surviving file changed "
                        f"what the file loads to"[:600])
        return pw.elog.digest()
    finally:
        pw.close()


def wall(tier):
    return 90 if tier == "quick" else 1500


def rand_snap(rng, big=False, huge=False):
    snap = {}
    for n in rng.sample([0, 1, 2, 9, 100, 254], rng.randint(0 if not big else 2, 4)):
        snap[str(n)] = {"type": rng.choice([17, 18]), "version": rng.choice(["2.2.0", "1.4"]),
                        "sketch_name": rng.choice(["", "sk", "x" * 50]), "sketch_version": rng.choice(["", "1.0"]),
                        "battery": rng.choice([0, 50, 100]), "heartbeat": rng.choice([0, 5]),
                        "sleeping": rng.random() < 0.3,
                        "children": {str(c): {"type": rng.choice([0, 6, 38]), "desc": rng.choice(["", "d"]),
                                              "values": {str(t): rng.choice(["1", "20.5", "on" * (3000 if huge else 40 if big else 1)])
                                                         for t in rng.sample([0, 2, 47], rng.randint(0, 3))}}
                                     for c in rng.sample([0, 1, 254], rng.randint(0, 3))}}
    return snap


def gen(seed: int, i: int, tier: str) -> dict:
    rng = random.Random(f"C15:{seed}:{i}")
    if i % 5 == 4:
        # session mode: the background saver (start/stop) is stopped while one of its saves is in flight and the
        # final save follows at once; crash points run over the whole sequence of raw operations
        return {"kind": "session", "old": rand_snap(rng), "mid": rand_snap(rng), "new": rand_snap(rng, big=rng.random() < 0.3),
                "stop_at": rng.choice([0.0, 0.5, 1.5, 2.5, 3.5, 4.5, 900.5, 901.5, 903.5]),
                "tapes": {"exec.lat": [rng.choice([0, 1, 2]) for _ in range(12)]}}
    old = rand_snap(rng)
    new = rand_snap(rng, big=rng.random() < 0.3)
    if rng.random() < 0.2:
        old = {}
    limit = rng.choice([None, None, 4096, 100, 37])
    if rng.random() < 0.15:
        # an image of several buffer sizes (tens of KiB): only there does it show whether the library hands the image
        # to the file in one piece or in slices (several raw writes without any device limit)
        new = rand_snap(rng, big=True, huge=True)
        limit = rng.choice([None, None, 4096])
    return {"old": old, "new": new, "write_limit": limit,
            "tapes": {"exec.lat": [rng.choice([0, 1]) for _ in range(6)]}}


def _save(pw, nodes):
    return pw.run(Persistence(nodes, PATH).save())


def run(scn) -> RunResult:
    """One scenario = one (old, new, write limit) triple; ALL its crash points are executed.

    scn["points"] (optional, used by replay files) restricts the run to the listed [k, torn] points.
    """
    if scn.get("kind") == "session":
        return run_session(scn)
    res = RunResult()
    h = hashlib.sha256()
    with gc_paused():
        # ---- reference run: record the raw operations of the second save ----
        pw = PWorld(scn.get("tapes"))
        try:
            pw.disk.write_limit = scn.get("write_limit")
            old_nodes = build_nodes(scn["old"])
            new_nodes = build_nodes(scn["new"])
            want_old, want_new = snapshot(old_nodes), snapshot(new_nodes)
            k0, v0 = _save(pw, old_nodes)
            if k0 != "ok":
                raise RuntimeError(f"reference save failed: {k0} {v0!r}")
            old_image = pw.disk.image(PATH)
            base_ops = pw.disk.nops
            j0 = len(pw.disk.journal)
            k1, v1 = _save(pw, new_nodes)
            if k1 != "ok":
                raise RuntimeError(f"reference save failed: {k1} {v1!r}")
            new_image = pw.disk.image(PATH)
            ops = [ev for ev in pw.disk.journal[j0:] if ev[0] in ("open", "write", "close", "rename", "truncate", "remove")]
            nops = pw.disk.nops - base_ops
            h.update(pw.elog.digest().encode())
        finally:
            pw.close()
        if len(ops) != nops:
            raise RuntimeError(f"journal/op count mismatch {len(ops)} != {nops}")
        points = [(k, None) for k in range(nops + 1)]
        for k, ev in enumerate(ops):
            if ev[0] == "write":
                size = ev[3]
                for off in sorted({1, size // 2, size - 1}):
                    if 0 < off < size:
                        points.append((k, off))
        if scn["new"]:
            points.append(("ser", None))
        if scn.get("points"):
            points = [tuple(p) for p in scn["points"]]
        res.states.add(("C15", nops))
        for k, torn in points:
            res.ops += 1
            in_ser = k == "ser"
            if in_ser:
                k = nops  # no crash point at the device: the process dies in the serialiser instead
            res.probes["no_crash_reference"] += int(k >= nops and not in_ser)
            # ---- crash run ----
            pw = PWorld(scn.get("tapes"))
            try:
                pw.disk.write_limit = scn.get("write_limit")
                _save(pw, build_nodes(scn["old"]))
                pw.disk.crash_at = pw.disk.nops + k if k < nops else None
                pw.disk.torn = torn
                kind, val = _save(pw, _dying(build_nodes(scn["new"])) if in_ser else build_nodes(scn["new"]))
                crashed = pw.loop.crashed
                image = pw.disk.image(PATH)
                h.update(pw.elog.digest().encode())
                res.faults.update(pw.faults)
                res.vt += pw.loop.time()
                res.steps += pw.loop.steps
            finally:
                pw.close()
            if in_ser:
                if not crashed:
                    raise RuntimeError(f"crash in the serialiser did not fire ({kind} {val!r})")
                res.probes["crash_while_serialising"] += 1
            elif crashed:
                opk = ops[k][0]
                if k == 0:
                    res.probes["crash_before_open"] += 1
                elif torn:
                    res.probes["crash_torn_write"] += 1
                elif opk == "write" and k == 1:
                    res.probes["crash_after_truncate"] += 1
                elif opk == "write":
                    res.probes["crash_between_writes"] += 1
                elif opk == "close":
                    res.probes["crash_before_close"] += 1
                elif opk == "rename":
                    res.probes["crash_before_rename"] += 1
            elif k < nops:
                raise RuntimeError(f"crash point {k}/{nops} did not fire ({kind} {val!r})")
            # ---- restart: only the durable image survives ----
            pw = PWorld({})
            try:
                if image is not None:
                    pw.disk.files[PATH] = bytearray(image)
                loaded: dict = {}
                o, v = pw.run(Persistence(loaded, PATH).load())
                got = snapshot(loaded)
                h.update(pw.elog.digest().encode())
            finally:
                pw.close()
            if image == old_image:
                icls = "old-image"
            elif image == new_image:
                icls = "new-image"
            elif image == b"":
                icls = "truncated-empty"
            elif image is not None and new_image.startswith(image):
                icls = "partial-new"
            elif image is None:
                icls = "file-missing"
            else:
                icls = "garbage"
            good = o == "ok" and got in (want_old, want_new)
            if not good or (k + (torn or 0)) % 5 == 0:
                h.update(_restarts(image, res, icls, o if o != "ok" else "ok", f"crash at raw op {k}/{nops} torn={torn}").encode())
            if o == "ok" and got == want_old:
                res.probes["post_crash_old"] += 1
            elif o == "ok" and got == want_new:
                res.probes["post_crash_new"] += 1
            else:
                if o == "ok":
                    lres = "empty-registry" if not got else "other-registry"
                elif isinstance(v, PersistenceReadError):
                    lres = "read-error"
                else:
                    lres = f"error:{type(v).__name__ if v is not None else o}"
                # how the strict prefix came about decides whether it is the recorded finding: a raw write torn by the
                # crash, or a device that takes less than it is offered (the buffered writer then needs several raw
                # writes). A prefix left by a crash BETWEEN complete raw writes on a device that takes everything
                # means the library itself hands the image over in pieces - the unchanged tree never does.
                how = ""
                if icls == "partial-new":
                    how = ":torn-write" if torn else ":short-writes" if scn.get("write_limit") else ":between-whole-writes"
                res.violate(PROP, "post-crash-load", f"{icls}:{lres}{how}" + (":died-while-serialising" if in_ser else ""),
                            f"crash at raw op {'(in the serialiser)' if in_ser else k}/{nops} ({ops[k][0] if k < len(ops) else 'none'}) torn={torn}: image "
                            f"{len(image) if image is not None else None} bytes of {len(new_image)}; old={len(old_image)} "
                            f"bytes; loaded {o} {v!r}; replay with points=[[{'"ser"' if in_ser else k}, {torn if torn else 'null'}]]"[:600])
        res.probes["crash_points"] += len(points)
        if not scn.get("points"):
            h.update(_failed_save_then_save(scn, res, later_write=bool(scn.get("write_limit"))).encode())
    res.digest = h.hexdigest()
    res.nontrivial_key = ("C15", scn["old"], scn["new"], scn.get("write_limit"))
    return res


def _failed_save_then_save(scn, res, later_write=False) -> str:
    """One Persistence object: the old registry is saved; the save of the new registry FAILS with an I/O error in the
    middle of its writes (remains of it are on the disk); the registry goes back to the old one and is saved again -
    successfully.  The file must now load to the old registry: "the registry as last successfully saved" may not be
    lost behind a save that the library reported as done."""
    pw = PWorld(scn.get("tapes"))
    try:
        pw.disk.write_limit = scn.get("write_limit")
        nodes = dict(build_nodes(scn["old"]))
        want = snapshot(nodes)
        p = Persistence(nodes, PATH)
        k0, v0 = pw.run(p.save())
        nodes.clear()
        nodes.update(build_nodes(scn["new"]))
        pw.disk.fault_on["write"] = ([0] if later_write else []) + ["ENOSPC"]
        k1, v1 = pw.run(p.save())
        pw.disk.fault_on.clear()
        nodes.clear()
        nodes.update(build_nodes(scn["old"]))
        k2, v2 = pw.run(p.save())
        res.probes["save_after_failed_save"] += 1
        if k0 != "ok" or k2 != "ok":
            res.violate(PROP, "save-after-failed-save", f"save-raised:{type(v2 or v0).__name__}", repr(v2 or v0)[:200])
            return pw.elog.digest()
        if k1 == "ok" and later_write:
            # the whole image went out in one raw write: let the first write fail instead
            pw.close()
            pw = None
            return _failed_save_then_save(scn, res, later_write=False)
        loaded: dict = {}
        o, v = pw.run(Persistence(loaded, PATH).load())
        if o != "ok":
            res.violate(PROP, "save-after-failed-save", "file-unreadable-after-successful-save",
                        f"{v!r}; the failed save left {len(pw.disk.image(PATH) or b'')} bytes"[:300])
        elif snapshot(loaded) != want:
            res.violate(PROP, "save-after-failed-save", "other-registry-after-successful-save",
                        f"want {sorted(want)} got {sorted(snapshot(loaded))}")
        return pw.elog.digest()
    finally:
        if pw is not None:
            pw.close()


def simplify(scn):
    """Shrinking candidates: restrict to single crash points, smaller registries."""
    out = []
    if scn.get("kind") == "session":
        if not scn.get("points"):
            for k in range(0, 16):
                out.append(dict(scn, points=[[k, None]]))
        return out
    if not scn.get("points"):
        for k in range(0, 12):
            out.append(dict(scn, points=[[k, None]]))
            out.append(dict(scn, points=[[k, 1]]))
    if scn.get("write_limit"):
        out.append(dict(scn, write_limit=None))
    for key in ("old", "new"):
        for n in list(scn[key]):
            d = dict(scn[key])
            del d[n]
            out.append(dict(scn, **{key: d}))
    return out


def _session_once(scn, crash_at, torn, record=None):
    """Run start -> (time passes) -> registry changes -> stop on a fresh world. Returns (image, crashed, nops, journal)."""
    import asyncio
    import functools

    pw = PWorld(scn.get("tapes"))
    try:
        old_nodes = build_nodes(scn["old"])
        pw.disk.files[PATH] = bytearray(native_image(snapshot(old_nodes)).encode())
        nodes = build_nodes(scn["mid"])
        extra = build_nodes(scn["new"])
        p = Persistence(nodes, PATH)
        base = pw.disk.nops
        pw.disk.crash_at = base + crash_at if crash_at is not None else None
        pw.disk.torn = torn
        if record is not None:
            def on_submit(func):
                if isinstance(func, functools.partial) and getattr(func.func, "__self__", None) is pw.disk \
                        and "w" in func.keywords.get("mode", "r"):
                    record.append(snapshot(nodes))
                return None
            pw.loop.on_exec_submit = on_submit

        async def session():
            await p.start()
            if scn["stop_at"]:
                await asyncio.sleep(scn["stop_at"])
            nodes.update(extra)  # the registry changes while the saver may be in the middle of a save
            await p.stop()

        kind, val = pw.run(session(), horizon=2000)
        # give orphaned jobs / tasks (if any) the chance to hit the disk, as they would in a live process
        if not pw.loop.crashed:
            pw.loop.run_until_idle(50)
        journal = [ev for ev in pw.disk.journal if ev[0] in ("open", "write", "close", "rename", "truncate", "remove")
                   and ev[1] == PATH]
        return pw.disk.image(PATH), pw.loop.crashed, pw.disk.nops - base, journal, kind, val, pw.elog.digest(), pw.loop.time()
    finally:
        pw.close()


def run_session(scn) -> RunResult:
    res = RunResult()
    h = hashlib.sha256()
    with gc_paused():
        snaps: list = []
        image, crashed, nops, journal, kind, val, dg, vt = _session_once(scn, None, None, record=snaps)
        h.update(dg.encode())
        if kind != "ok":
            raise RuntimeError(f"reference session failed: {kind} {val!r}")
        old_snap = snapshot(build_nodes(scn["old"]))
        final_snap = snapshot({**build_nodes(scn["mid"]), **build_nodes(scn["new"])})
        candidates = [old_snap] + snaps + [final_snap]
        cand_images = [native_image(c).encode() for c in candidates]
        points = [(k, None) for k in range(nops + 1)]
        if scn.get("points"):
            points = [tuple(p) for p in scn["points"]]
        res.probes["session_mode"] += 1
        res.states.add(("C15s", nops))
        for k, torn in points:
            res.ops += 1
            image, crashed, _n, _j, kind, val, dg, vt = _session_once(scn, k if k < nops else None, torn)
            h.update(dg.encode())
            res.vt += vt
            if crashed:
                res.faults["crash"] += 1
                res.probes["crash_in_session"] += 1
            pw = PWorld({})
            try:
                if image is not None:
                    pw.disk.files[PATH] = bytearray(image)
                loaded: dict = {}
                o, v = pw.run(Persistence(loaded, PATH).load())
                got = snapshot(loaded)
            finally:
                pw.close()
            if not crashed and k >= nops and not (o == "ok" and got == final_snap):
                # no crash at all: start -> changes -> stop ran to the end, so the registry as of the stop is "the
                # registry as last successfully saved" - an older snapshot or an empty file is a lost save
                lres0 = ("older-registry" if got in candidates else "empty-registry" if not got else "other-registry") \
                    if o == "ok" else "unreadable"
                res.violate(PROP, "orderly-stop", f"final-registry-not-on-disk:{lres0}",
                            f"session mode, no crash: stop_at={scn['stop_at']} image {len(image) if image is not None else None} "
                            f"bytes loads to {sorted(got)} want {sorted(final_snap)}"[:400])
                continue
            if o == "ok" and got in candidates:
                res.probes["post_crash_old" if got == old_snap else "post_crash_new"] += 1
                if k % 5 == 0:
                    h.update(_restarts(image, res, "readable-image", "ok", f"session mode: crash at raw op {k}/{nops}").encode())
                continue
            h.update(_restarts(image, res, "damaged-image", o, f"session mode: crash at raw op {k}/{nops}").encode())
            if image in cand_images:
                icls = "new-image"
            elif image == b"":
                icls = "truncated-empty"
            elif image is not None and any(ci.startswith(image) for ci in cand_images):
                icls = "partial-new"
            elif image is None:
                icls = "file-missing"
            else:
                icls = "garbage"
            lres = ("empty-registry" if not got else "other-registry") if o == "ok" else \
                ("read-error" if isinstance(v, PersistenceReadError) else f"error:{type(v).__name__ if v is not None else o}")
            how = ":between-whole-writes" if icls == "partial-new" else ""  # session mode: no torn writes, no write limit
            res.violate(PROP, "post-crash-load", f"{icls}:{lres}{how}",
                        f"session mode: crash at raw op {k}/{nops}: image {len(image) if image is not None else None} bytes; "
                        f"loaded {o} {v!r}; stop_at={scn['stop_at']}; replay with points=[[{k}, null]]"[:600])
        res.probes["crash_points"] += len(points)
    res.digest = h.hexdigest()
    res.nontrivial_key = ("C15s", scn["old"], scn["mid"], scn["new"], scn["stop_at"], scn["tapes"])
    return res

"""C06 — writes are exactly the specified reactions, addressed to the asker, unbuffered.

Nodes issue every request kind and every non-reacting kind in random order
under random registry states (stored value present/absent, reboot flag,
metric/imperial, version known/unknown, requester sleeping with commands
parked for it); simulated wall clock with per-run epoch, time zone and clock
jumps between requests.  After every received line the exact list of
Transport.write calls is compared with the reference model.
"""

from __future__ import annotations

import random

from vsim import gen as G
from vsim.gwrun import execute

PROP = "C06"
LEVEL = "exploration"
LEVEL_TEXT = ("After every received line the complete list of Transport.write calls is compared with the reaction list "
              "of an independent model (id response, config M/I, local-epoch time, value reply, discover broadcast, "
              "reboot command, version query rule), over seeded histories x registry states x 5 protocol versions x "
              "time zones with clock jumps; parked commands must stay parked. Sampling.")
LEVEL_NOTE = ("Trusted: reference model; simulated wall clock injected through the protocol_14.time module attribute "
              "(libc localtime converts the simulated instant under the run's TZ); ack flag of replies not compared.")
TECHNIQUE = "deterministic simulation: model-based check of per-line write lists with simulated clock (skew/jumps, TZ)"
RULE = ("seeded request/non-request traffic from 1-3 nodes incl. unknown ones, app sends that park commands for "
        "sleeping requesters, reboot flags, clock jumps, 12 time zones; non-trivial iff the history contains a reacting "
        "request; distinct = distinct (config, op sequence)")
REAL = ["aiomysensors.Gateway.listen/send", "incoming/outgoing handlers 1.4-2.2", "calendar.timegm", "libc localtime"]
STUB = ["event loop (SimLoop)", "transport (SimTransport)", "time source (simulated epoch via protocol_14.time seam)"]
ASSUMPTIONS = ["reference model is the oracle", "reply ack flag unspecified and ignored"]
REQUIRED_PROBES = ["reply_to_sleeping_requester", "query_after_failed_handler", "clock_jump_between_time_requests",
                   "half_hour_tz", "time_request", "req_with_value", "req_without_value", "reboot_on_set",
                   "discover_on_gateway_ready", "too_many_nodes_version_unknown"]
ASPECTS = ("writes.",)

TZS = [("UTC", None), ("AAA-5:30", 19800), ("BBB+3", -10800), ("CCC-13", 46800), ("DDD+9:30", -34200),
       ("Europe/Stockholm", None), ("America/New_York", None), ("Asia/Kolkata", None), ("Australia/Lord_Howe", None),
       ("Pacific/Chatham", None), ("America/St_Johns", None), ("Asia/Kathmandu", None)]
EPOCHS = [0, 86399, 951782400, 1_700_000_000, 1711846799, 1711846800, 1730595600, 2_147_483_647, 4_102_444_800]


def budget(tier):
    return 12000 if tier == "quick" else 200_000


def wall(tier):
    return 90 if tier == "quick" else 1500


def _gen(seed: int, i: int, tier: str) -> dict:
    rng = random.Random(f"C06:{seed}:{i}")
    proto = rng.choice(G.PROTOS)
    tz, off = rng.choice(TZS)
    cfg = {"pin": proto if rng.random() < 0.6 else None, "metric": rng.random() < 0.5, "tz": tz,
           "tz_offset": off, "epoch": rng.choice(EPOCHS) + rng.randint(0, 100000) * rng.choice([0, 1])}
    ops = []
    known = rng.sample([0, 1, 2, 3, 9, 100, 254], rng.randint(1, 3))
    unknown = [n for n in (4, 5, 77) if n not in known]
    children = [0, 1, 7]
    # value types deliberately include numbers that mean something else as INTERNAL types (1 time, 2 version,
    # 3 id request, 6 config, 9 log, 14 gateway ready, 19, 22): command namespaces must not be confused
    types = rng.sample([0, 1, 2, 3, 6, 9, 14, 19, 22, 24], 4)
    if i % 13 == 0:
        # directed: registry full, version unknown, id request -> TooManyNodes but still a version query
        cfg["pin"] = None
        ops.append(["restore", {"254": {"type": 17, "version": "1.4"}}])
        ops.append(["line", "255;255;3;0;3;\n"])
    if cfg["pin"] is None and rng.random() < 0.6:
        at = rng.randint(0, 4)
    else:
        at = None
    for n in known:
        ops.append(["line", f"{n};255;0;0;17;{proto}\n"])
        for c in rng.sample(children, rng.randint(1, 3)):
            ops.append(["line", f"{n};{c};0;0;{rng.choice([3, 3, 9, 14, 6, 2])};c\n"])
            for t in rng.sample(types, rng.randint(0, 3)):
                ops.append(["line", f"{n};{c};1;0;{t};{G.payload(rng)}\n"])
    is2x = proto in G.PROTOS_2X
    sleepers = []
    body = []
    for _ in range(rng.randint(3, 25)):
        n = rng.choice(known + known + unknown[:1])
        c = rng.choice(children)
        r = rng.random()
        if r < 0.12:
            body.append(["line", f"{n};{c};1;{rng.choice([0, 1])};{rng.choice(types)};{G.payload(rng)}\n"])
        elif r < 0.26:
            body.append(["line", f"{n};{c};2;0;{rng.choice(types)};\n"])
        elif r < 0.36:
            body.append(["line", f"{rng.choice([n, 255])};{rng.choice([255, 255, c])};3;0;3;\n"])
        elif r < 0.46:
            body.append(["line", f"{n};255;3;{rng.choice([0, 1])};6;{rng.choice(['', '0'])}\n"])
        elif r < 0.58:
            body.append(["line", f"{n};255;3;0;1;\n"])
        elif r < 0.63:
            body.append(["line", f"0;255;3;0;14;Gateway startup complete.\n"])
        elif r < 0.67:
            body.append(["line", f"0;255;3;0;9;log {G.payload(rng)}\n"])
        elif r < 0.72:
            body.append(["reboot", rng.choice(known), rng.random() < 0.8])
        elif r < 0.77:
            body.append(["clock", rng.choice([-86400, -3600, -1, 1, 60, 3600, 86400 * 365])])
        elif r < 0.80:
            body.append(["sleep", rng.choice([0.5, 1, 59, 3600])])
        elif r < 0.82:
            body.append(["reenter"])
        elif r < 0.835 and cfg["metric"]:
            cfg["default_config"] = True
            body.append(["other_gateway_imperial"])
        elif r < 0.87 and is2x:
            k = rng.choice(known)
            body.append(["line", G.wake_line(proto, k, rng.randint(0, 9))])
            sleepers.append(k)
        elif r < 0.92 and sleepers:
            k = rng.choice(sleepers)
            body.append(["send", [k, rng.choice(children), 1, 0, rng.choice(types), G.payload(rng)], True])
        elif r < 0.96:
            t = rng.choice([5, 7, 8, 10, 11, 12, 13, 0, 15, 16, 17, 18, 19, 20, 21, 23, 24, 25, 26, 27, 28, 29, 33, 40])
            body.append(["line", f"{n};255;3;0;{t};{rng.choice(['', '1', '50'])}\n"])
        else:
            body.append(["line", f"{n};255;4;0;{rng.choice([0, 1, 2, 5, 6, 9, 14])};ab\n"])
    if at is not None:
        body.insert(min(at, len(body)), ["line", f"0;255;3;0;2;{proto}\n"])
    ops += body
    return {"cfg": cfg, "ops": ops}


def gen(seed: int, i: int, tier: str) -> dict:
    if i % 4 == 3:
        from vsim.universe import gen_universe
        return gen_universe(random.Random(f"U:C06:{seed}:{i}"), tier)
    scn = _gen(seed, i, tier)
    return G.maybe_tcp(random.Random(f"C06link:{seed}:{i}"), scn)


def run(scn):
    if scn.get("kind") == "universe":
        from vsim.universe import run_universe
        return run_universe(scn, PROP, ASPECTS, keep=None)
    st = {"react": False, "last_time_jump": None, "seen_time": False, "jumped": False}
    tz = scn["cfg"].get("tz")

    def on_step(i, op, obs, disc, model, w, res):
        if op[0] == "clock":
            st["jumped"] = True
            return
        if op[0] != "line" or obs is None:
            return
        parts = op[1].rstrip("\n").split(";")
        if len(parts) < 6:
            return
        n, c, cmd, t = int(parts[0]), int(parts[1]), int(parts[2]), int(parts[4])
        ok_writes = [wl for wl, ok in obs.writes if ok]
        reacted = any(not (x.startswith("0;255;3;0;2;")) for x in ok_writes)
        if reacted:
            st["react"] = True
            node = model.nodes.get(n)
            if node and node["sleeping"] and model.parked:
                res.probes["reply_to_sleeping_requester"] += 1
        if obs.kind == "err" and any(x.startswith("0;255;3;0;2;") for x in ok_writes):
            res.probes["query_after_failed_handler"] += 1
            if obs.cls == "TooManyNodesError":
                res.probes["too_many_nodes_version_unknown"] += 1
        if cmd == 3 and t == 1 and obs.kind == "ok":
            res.probes["time_request"] += 1
            if st["seen_time"] and st["jumped"]:
                res.probes["clock_jump_between_time_requests"] += 1
            st["seen_time"] = True
            st["jumped"] = False
            if tz in ("AAA-5:30", "DDD+9:30", "Asia/Kolkata", "Australia/Lord_Howe", "America/St_Johns"):
                res.probes["half_hour_tz"] += 1
        if cmd == 2 and obs.kind == "ok":
            res.probes["req_with_value" if reacted else "req_without_value"] += 1
        if cmd == 1 and any(";3;0;13;" in x for x in ok_writes):
            res.probes["reboot_on_set"] += 1
        if cmd == 3 and t == 14 and any(x.startswith("255;255;3;0;20;") for x in ok_writes):
            res.probes["discover_on_gateway_ready"] += 1

    res = execute(scn, PROP, ASPECTS, on_step=on_step)
    if st["react"]:
        res.nontrivial_key = ("C06", scn["cfg"], scn["ops"])
    return res

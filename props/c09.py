"""C09 — no set command is lost when send races with the wake-up flush.

Schedule search: one listener task releasing parked commands with transport
writes that really suspend (scenario-chosen latencies), 1-3 application tasks
whose send() calls land at scenario-chosen instants (before the snapshot,
between two writes, while a write is suspended, after the last removal).
Oracle over the recorded history (global event sequence numbers): per key the
last written value is the value of a maximal send, every written value was
sent, no value is written more often than it was sent.
"""

from __future__ import annotations

import asyncio
import random

from vsim.core import RunResult, task_exc
from vsim.gw import GwWorld, gc_paused
from vsim.gw import Message

PROP = "C09"
LEVEL = "exploration"
LEVEL_TEXT = ("Seeded search over interleavings of one flushing listener with 1-3 concurrent send() tasks at "
              "transport-write suspension points, oracle over the recorded history (maximal-send rule, as in a "
              "linearizability check). Sampling, not enumeration: a clean batch is evidence, not proof.")
LEVEL_NOTE = ("Trusted: SimLoop keeps asyncio's FIFO ready order; interleavings come only from write latencies and "
              "send instants read from the scenario tape; one listener task; transport = injected SimTransport.")
TECHNIQUE = "deterministic simulation: seeded schedule search over write-suspension interleavings + history oracle"
RULE = ("seeded schedules: (wake instants, per-write latencies, send instants of 1-3 app tasks, keys, parked set "
        "<=4); a run is non-trivial iff at least one send was invoked while the release loop was in progress; "
        "distinct = distinct ordering of (send-invoke, send-return, write-start, write-end, wake) events per key")
REAL = ["aiomysensors.Gateway.listen/send", "protocol_2x handlers and sleep buffer", "marshmallow codec",
        "asyncio tasks/queues/sleep"]
STUB = ["event loop (SimLoop, virtual time)", "transport (SimTransport: latency tape)"]
ASSUMPTIONS = ["FIFO ready queue as in asyncio; interleavings arise only from I/O completion times",
               "one listener task (the library's documented usage)"]
REQUIRED_PROBES = ["send_during_write_same_key", "send_during_release_other_key", "send_between_writes",
                   "race_with_write_fault"]
SHRINK_LISTS = ("pre", "actors", "wakes", "tapes")


def budget(tier):
    return 12000 if tier == "quick" else 800_000


def wall(tier):
    return 60 if tier == "quick" else 900


def gen(seed: int, i: int, tier: str) -> dict:
    rng = random.Random(f"C09:{seed}:{i}")
    proto = rng.choice(["2.0", "2.1", "2.2"])
    nnodes = rng.choice([1, 1, 2])
    nodes = list(range(1, nnodes + 1))
    children = [0, 1][: rng.choice([1, 2])]
    types = [2, 3][: rng.choice([1, 2])]
    keys = [(n, c, t) for n in nodes for c in children for t in types]
    vid = [0]

    def val():
        vid[0] += 1
        return f"v{vid[0]}"

    pre = []
    for _ in range(rng.randint(0, 4)):
        k = rng.choice(keys)
        pre.append([k[0], k[1], 1, 0, k[2], val()])
    nwakes = rng.randint(1, 3)
    wakes = []
    t = 10.0
    for _ in range(nwakes):
        wakes.append({"at": t, "node": rng.choice(nodes)})
        t += rng.choice([1.0, 4.0, 8.0, 20.0])
    lat = [rng.choice([0, 0, 1, 2, 3, 5]) for _ in range(rng.randint(0, 12))]
    reqs = rng.random() < 0.25
    if reqs:
        # the woken node also asks for values back before/after it is flushed
        for _ in range(rng.randint(1, 3)):
            k = rng.choice(keys)
            wakes.append({"at": rng.choice([9.75, 10.25, 12.25, 15.25]), "node": k[0], "req": [k[1], k[2]]})
        wakes.sort(key=lambda x: x["at"])
    actors = []
    if i % 10 == 0 and pre:
        # directed template: a send on the key being written lands inside its suspended write
        k = pre[0]
        wakes = [{"at": 10.0, "node": k[0]}]
        lat = [rng.choice([2, 3])] + [rng.choice([0, 1, 2]) for _ in range(4)]
        actors.append([{"at": 10.5 + rng.choice([0, 1]), "msg": [k[0], k[1], 1, 0, k[4], val()]}])
    for _ in range(rng.randint(0 if actors else 1, 3)):
        sends = []
        at = rng.choice([9.5, 10.5, 11.5, 12.5])
        for _ in range(rng.randint(1, 3)):
            k = rng.choice(keys)
            sends.append({"at": at, "msg": [k[0], k[1], 1, 0, k[2], val()]})
            at += rng.choice([0.0, 1.0, 2.0, 3.0, 7.0])
        actors.append(sends)
    tapes = {"w.lat": lat}
    if rng.random() < 0.3:
        # fault injection on release writes while sends race with the flush (1 = fails at once, 2 = fails after
        # its suspension); the final wakes run after the tape is exhausted, i.e. fault-free
        tapes["w.fail.set"] = [rng.choice([0, 0, 1, 2, 2]) for _ in range(rng.randint(1, 5))]
    return {"cfg": {"pin": proto, "reenter": rng.random() < 0.15, "reqs": reqs}, "nodes": nodes, "children": children, "pre": pre,
            "wakes": wakes, "actors": actors, "tapes": tapes}


def valid(scn) -> bool:
    return bool(scn.get("nodes")) and bool(scn.get("children"))


def wake_line(proto, node, k):
    return f"{node};255;3;0;32;\n" if proto == "2.2" else f"{node};255;3;0;22;{k}\n"


def run(scn: dict) -> RunResult:
    res = RunResult()
    with gc_paused():
        w = GwWorld(scn["cfg"], scn.get("tapes"))
        try:
            _run(scn, w, res)
        finally:
            res.digest = w.elog.digest()
            res.vt = w.loop.time()
            res.steps = w.loop.steps
            res.faults.update(w.faults)
            w.close()
    return res


def _run(scn, w: GwWorld, res: RunResult):
    proto = scn["cfg"]["pin"]
    gw = w.gateway
    # sequential setup: present nodes and children, mark them sleeping by a first wake
    for n in scn["nodes"]:
        w.listen_step(f"{n};255;0;0;17;{proto}\n")
        for c in scn["children"]:
            w.listen_step(f"{n};{c};0;0;3;child\n")
        if scn["cfg"].get("reqs"):
            for c in scn["children"]:
                for t in (2, 3):
                    w.listen_step(f"{n};{c};1;0;{t};stored-{n}-{c}-{t}\n")
        w.listen_step(wake_line(proto, n, 1))
    sends = []  # dict(key, value, invoke, ret, exc)
    for f in scn["pre"]:
        inv = w.log("app", "send-invoke", tuple(f))
        obs = w.send_step(f)
        ret = w.log("app", "send-return", tuple(f))
        sends.append({"key": (f[0], f[1], f[4]), "val": f[5], "invoke": inv, "ret": ret,
                      "exc": obs.cls if obs.kind != "ok" else None})
    w.relisten()
    w._wmark = len(w.writes)
    base = len(w.writes)
    listener_events = []
    req_marks = []  # event numbers at which a value request was delivered

    async def listener():
        while True:
            try:
                async for msg in gw.listen():
                    listener_events.append(("msg", w.log("listener", "yield", msg.node_id, msg.message_type)))
            except asyncio.CancelledError:
                raise
            except Exception as exc:  # noqa: BLE001
                listener_events.append(("exc", type(exc).__name__))
                w.log("listener", "raised", type(exc).__name__)

    async def device():
        k = 2
        for wk in scn["wakes"]:
            dt = wk["at"] - w.loop.time()
            if dt > 0:
                await asyncio.sleep(dt)
            k += 1
            if wk.get("req"):
                c, t = wk["req"]
                req_marks.append(w.log("device", "req", wk["node"], c, t))
                w.transport.inbox.put_nowait(("line", f"{wk['node']};{c};2;0;{t};\n"))
                continue
            w.log("device", "wake", wk["node"])
            w.transport.inbox.put_nowait(("line", wake_line(proto, wk["node"], k)))

    async def app(ops):
        for op in ops:
            dt = op["at"] - w.loop.time()
            if dt > 0:
                await asyncio.sleep(dt)
            f = op["msg"]
            rec = {"key": (f[0], f[1], f[4]), "val": f[5], "invoke": None, "ret": None, "exc": None}
            sends.append(rec)
            rec["invoke"] = w.log("app", "send-invoke", tuple(f))
            try:
                await gw.send(Message(*f))
            except asyncio.CancelledError:
                raise
            except Exception as exc:  # noqa: BLE001
                rec["exc"] = type(exc).__name__
            rec["ret"] = w.log("app", "send-return", tuple(f))

    lt = w.loop.create_task(listener())
    tasks = [w.loop.create_task(device())] + [w.loop.create_task(app(a)) for a in scn["actors"] if a]
    w.loop.run_until_idle(10_000)
    hung = [t for t in tasks if not t.done()]
    if hung:
        res.violate(PROP, "quiescence", "task-hung", f"{len(hung)} actor tasks never finished")
    for t in tasks:
        if t.done() and not t.cancelled() and task_exc(t) is not None:
            raise task_exc(t)
    if scn["cfg"].get("reenter"):
        # the application leaves and re-enters the gateway context (reconnect): nothing parked may be forgotten
        lt.cancel()
        w.loop.run_until_idle(0)
        err = w.reenter()
        res.probes["reenter_before_final_wake"] += 1
        if err:
            res.violate(PROP, "no-unexpected-exception", f"reenter-raised:{err}", "")
        lt = w.loop.create_task(listener())
        w.loop.run_until_idle(0)
    # the node(s) wake once more, sequentially, with no latency left on the tape
    final_mark = w.log("harness", "final-wakes")
    w.tapes.get("w.fail.set").items = w.tapes.get("w.fail.set").items[: w.tapes.get("w.fail.set").pos]  # faults stop
    for n in scn["nodes"] + scn["nodes"]:
        w.transport.inbox.put_nowait(("line", wake_line(proto, n, 99)))
        w.loop.run_until_idle(10_000)
    lt.cancel()
    w.loop.run_until_idle(0)

    # ---------------- oracle over the history ----------------
    res.ops = len(sends) + len(scn["wakes"])
    injected = bool(w.faults.get("write_fail_early") or w.faults.get("write_fail_late"))
    for s in sends:
        if s["exc"] and not (injected and s["exc"] == "TransportFailedError"):
            res.violate(PROP, "no-unexpected-exception", f"send-raised:{s['exc']}", str(s))
    for kind, v in listener_events:
        if kind == "exc" and not (injected and v == "TransportFailedError"):
            res.violate(PROP, "no-unexpected-exception", f"listener-raised:{v}", "")
    if injected:
        res.probes["race_with_write_fault"] += 1
    wr = [r for r in w.writes[base:]]
    for r in w.writes[:base]:
        pass
    by_key_writes = {}
    for r in w.writes:
        parts = r["line"].rstrip("\n").split(";")
        if len(parts) >= 6 and parts[2] == "1" and r["ok"]:
            if r["seq_start"] is not None:
                # a reply to a value request, written while that request was being handled (before the listener
                # yielded it): the controller's reaction, not a parked command. A 'stored' value that shows up at
                # any other moment is judged like every other write.
                reads = [(ev[0], ev[4]) for ev in w.elog.events if ev[2] == "transport" and ev[3] == "read"
                         and ev[0] < r["seq_start"]]
                if reads:
                    lp = reads[-1][1].rstrip("\n").split(";")  # the line the listener is handling right now
                    if len(lp) >= 6 and lp[2] == "2" and (lp[0], lp[1], lp[4]) == (parts[0], parts[1], parts[4]):
                        res.probes["req_reply_excluded"] += 1
                        continue
            by_key_writes.setdefault((int(parts[0]), int(parts[1]), int(parts[4])), []).append(
                (r["seq_end"], ";".join(parts[5:]), r))
    by_key_sends = {}
    for s in sends:
        by_key_sends.setdefault(s["key"], []).append(s)
    for key, ss in sorted(by_key_sends.items()):
        done = [s for s in ss if s["ret"] is not None and not s["exc"]]
        if any(s["exc"] for s in ss):
            continue  # an application send that itself failed: the caller was told, nothing is demanded for the key
        if not done:
            continue
        ws = sorted(by_key_writes.get(key, []))
        sent_vals = [s["val"] for s in ss]
        maximal = [s for s in done if not any(o is not s and o["invoke"] is not None and o["invoke"] > s["ret"]
                                              for o in ss)]
        if not ws:
            res.violate(PROP, "last-write-is-maximal-send", "never-written",
                        f"key={key} sent={sent_vals}")
        else:
            last = ws[-1][1]
            if last not in [s["val"] for s in maximal]:
                res.violate(PROP, "last-write-is-maximal-send", "stale-or-lost",
                            f"key={key} last written {last!r}, maximal sends {[s['val'] for s in maximal]}, "
                            f"all sent {sent_vals}, written {[v for _, v, _ in ws]}")
        for _, v, _ in ws:
            if v not in sent_vals:
                res.violate(PROP, "written-value-was-sent", "phantom-value", f"key={key} value={v!r}")
        for v in set(x[1] for x in ws):
            if sum(1 for x in ws if x[1] == v) > sent_vals.count(v):
                res.violate(PROP, "not-written-more-often-than-sent", "duplicate-write", f"key={key} value={v!r}")
    for key in by_key_writes:
        if key not in by_key_sends:
            res.violate(PROP, "written-value-was-sent", "phantom-key", f"key={key}")

    # ---------------- probes / reach ----------------
    release_spans = []  # (start_seq, end_seq, [write recs]) per wake with writes
    cur = None
    evs = w.elog.events
    # a release is the run of write events between a listener read of a wake and its yield
    writes_set = [r for r in w.writes[base:] if r["cat"] == "set"]
    inter = False
    for s in sends:
        if s["invoke"] is None or s["invoke"] > final_mark:
            continue
        for r in writes_set:
            if r["seq_start"] is not None and r["seq_end"] is not None and r["seq_start"] < s["invoke"] < r["seq_end"]:
                parts = r["line"].rstrip("\n").split(";")
                k = (int(parts[0]), int(parts[1]), int(parts[4]))
                inter = True
                if k == s["key"]:
                    res.probes["send_during_write_same_key"] += 1
                else:
                    res.probes["send_during_release_other_key"] += 1
        for a, b in zip(writes_set, writes_set[1:]):
            if a["seq_end"] is not None and b["seq_start"] is not None and a["seq_end"] < s["invoke"] < b["seq_start"]:
                res.probes["send_between_writes"] += 1
                inter = True
    order = []
    for ev in evs:
        if ev[3] in ("send-invoke", "send-return", "write-start", "write-end", "wake"):
            order.append((ev[3], ev[4] if ev[3] == "wake" else None))
    if inter:
        res.nontrivial_key = ("C09", tuple(order), scn["cfg"]["pin"])
    res.states.add(("C09", len(order), len(by_key_sends), inter))

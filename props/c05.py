"""C05 — the active protocol is the newest supported one not newer than the reported version.

The device reports versions through both paths (I_VERSION reply, gateway
presentation) at arbitrary positions in other traffic, repeatedly, including
reports that must be rejected; after every step the public copies of "active
protocol" (Gateway.protocol_version, Gateway.protocol.VERSION) are compared
with the model table, and the type gate is probed with every internal / stream
type number.
"""

from __future__ import annotations

import random

from vsim import gen as G
from vsim.gwrun import execute

PROP = "C05"
LEVEL = "exploration"
LEVEL_TEXT = ("The full grid major x minor [x patch [x build]] (5*9*(1+4+8)=585 strings) is reported through both "
              "report paths in the thorough tier (seeded subset in quick) and the (reported version, active rules) pair "
              "is compared with the model's major.minor table after every step, also after garbage reports; the type "
              "gate is swept over internal types -1..40 and stream types -1..8 per protocol. Histories with several "
              "reports mixed with other traffic are seeded.")
LEVEL_NOTE = ("Trusted: model table (newest supported protocol whose major.minor <= reported). A report that is not of "
              "the form a.b[.c[.d]] must leave the pair unchanged or set it consistently from its numeric a.b prefix.")
TECHNIQUE = "deterministic simulation: model-based check of version state across report histories (grid + seeded)"
RULE = ("version strings from the grid {0,1,2,3,10}x{0,1,2,3,4,5,6,9,10}[x{0,1,2,17}[x{0,1}]] plus garbage forms, "
        "reported via I_VERSION reply or node-0 presentation, 1-4 reports per history mixed with type-gate probe lines; "
        "non-trivial iff the history contains >=1 version report; distinct = distinct (op list)")
REAL = ["aiomysensors.Gateway.listen", "protocol_version setter", "get_protocol", "awesomeversion", "type gate"]
STUB = ["event loop (SimLoop)", "transport (SimTransport)"]
ASSUMPTIONS = ["reference model table is the oracle"]
REQUIRED_PROBES = ["three_component_patch0", "three_component", "four_component", "garbage_report", "second_report",
                   "report_via_presentation", "report_via_version_reply", "unsupported_internal", "supported_internal",
                   "unsupported_stream", "downgrade_report"]
ASPECTS = ("version", "outcome", "writes.pres", "writes.reaction")

MAJORS = [0, 1, 2, 3, 10]
MINORS = [0, 1, 2, 3, 4, 5, 6, 9, 10]
PATCHES = [0, 1, 2, 17]
BUILDS = [0, 1]
GARBAGE = ["garbage", "", "1..2", "abc.def", "v2.2", ".", "2.", "..", "-1.4", "2,2", "two.two", "1" * 5000,
           "2." + "9" * 4400, "x" * 5000]


def grid():
    out = []
    for a in MAJORS:
        for b in MINORS:
            out.append(f"{a}.{b}")
            for c in PATCHES:
                out.append(f"{a}.{b}.{c}")
                for d in BUILDS:
                    out.append(f"{a}.{b}.{c}.{d}")
    return out


GRID = grid()


def budget(tier):
    return 10000 if tier == "quick" else 2 * len(GRID) + 5 * 52 + 300_000


def wall(tier):
    return 90 if tier == "quick" else 1500


def report(rng, v, path=None):
    path = path if path is not None else rng.choice([0, 1])
    return f"0;255;3;0;2;{v}\n" if path == 0 else f"0;255;0;0;18;{v}\n"


def _gen(seed: int, i: int, tier: str) -> dict:
    rng = random.Random(f"C05:{seed}:{i}")
    ng = len(GRID)
    if tier == "thorough" and i < 2 * ng:
        v = GRID[i % ng]
        return {"cfg": {"pin": None}, "ops": [["line", report(rng, v, i // ng)], ["line", "0;255;3;0;14;ready\n"]]}
    j = i - 2 * ng if tier == "thorough" else i
    if j < 5 * 52 and (tier == "thorough" or i % 4 == 0):
        # type-gate sweep: one protocol, one type number
        proto = G.PROTOS[(j // 52) % 5]
        k = j % 52
        if k < 42:
            line = f"1;255;3;0;{k - 1};{'5' if k - 1 in (0, 22) else ''}\n"
        else:
            line = f"1;255;4;0;{k - 43};ab\n"
        return {"cfg": {"pin": None}, "ops": [["line", report(rng, proto)], ["line", f"1;255;0;0;17;{proto}\n"],
                                              ["line", line]]}
    ops = []
    if rng.random() < 0.5:
        ops.append(["line", "1;255;0;0;17;2.0\n"])
    for _ in range(rng.randint(1, 4)):
        r = rng.random()
        if r < 0.75:
            v = rng.choice(GRID)
        elif r < 0.9:
            v = rng.choice(GARBAGE)
        else:
            v = rng.choice(["2.2.0-beta", "2.1.0-rc.1", "2.3.2+build5", "1.5.1a"])
        ops.append(["line", report(rng, v)])
        for _ in range(rng.randint(0, 3)):
            r2 = rng.random()
            if r2 < 0.4:
                t = rng.randint(-1, 40)
                ops.append(["line", f"1;255;3;0;{t};{'5' if t in (0, 22) else '2.0' if t == 2 else ''}\n"])
            elif r2 < 0.5:
                ops.append(["line", f"1;255;4;0;{rng.randint(-1, 8)};ab\n"])
            elif r2 < 0.6:
                ops.append(["line", "0;255;3;0;14;Gateway startup complete.\n"])
            elif r2 < 0.7:
                # report types that exist from 2.0 / 2.2 on, from a node that never presented itself
                ops.append(["line", f"77;255;3;0;{rng.choice([21, 22, 32])};5\n"])
            elif r2 < 0.77:
                ops.append(["relisten"])
            elif r2 < 0.8:
                ops.append(["reenter"])
            else:
                ops.append(["line", f"1;0;1;0;2;{G.payload(rng)}\n"])
    return {"cfg": {"pin": None}, "ops": ops}


def gen(seed: int, i: int, tier: str) -> dict:
    if i % 4 == 3:
        from vsim.universe import gen_universe
        return gen_universe(random.Random(f"U:C05:{seed}:{i}"), tier)
    return _gen(seed, i, tier)


def run(scn):
    if scn.get("kind") == "universe":
        from vsim.universe import run_universe
        return run_universe(scn, PROP, ASPECTS, keep=lambda aspect, site: aspect in ("version", "outcome", "writes.pres") or (aspect == "writes.reaction" and "type14" in site))
    st = {"reports": 0, "prev_proto": None}

    def on_step(i, op, obs, disc, model, w, res):
        if obs is None or op[0] != "line":
            return
        parts = op[1].rstrip("\n").split(";")
        if len(parts) < 6:
            return
        n, c, cmd, t = int(parts[0]), int(parts[1]), int(parts[2]), int(parts[4])
        p = ";".join(parts[5:])
        is_report = n == 0 and ((cmd == 3 and t == 2) or (cmd == 0 and c == 255))
        if is_report:
            st["reports"] += 1
            res.probes["report_via_version_reply" if cmd == 3 else "report_via_presentation"] += 1
            if st["reports"] >= 2:
                res.probes["second_report"] += 1
            comps = p.split(".")
            if all(x.isdigit() for x in comps) and comps:
                if len(comps) == 3:
                    res.probes["three_component_patch0" if comps[2] == "0" else "three_component"] += 1
                elif len(comps) == 4:
                    res.probes["four_component"] += 1
                if st["prev_proto"] is not None and model.proto < st["prev_proto"]:
                    res.probes["downgrade_report"] += 1
                st["prev_proto"] = model.proto
            elif p in GARBAGE:
                res.probes["garbage_report"] += 1
        elif cmd == 3:
            if obs.kind == "err" and obs.cls == "UnsupportedMessageError":
                res.probes["unsupported_internal"] += 1
            elif obs.kind == "ok":
                res.probes["supported_internal"] += 1
        elif cmd == 4 and obs.kind == "err" and obs.cls == "UnsupportedMessageError":
            res.probes["unsupported_stream"] += 1

    def keep(aspect, site):
        # C05 owns the version state and the type gate only
        # (the rules in force also show in what the probes do: discover broadcast on gateway-ready from 2.0 on,
        #  missing-node handling of 2.x-only report types, presentation requests only under 2.x)
        return aspect in ("version", "outcome", "writes.pres") or (aspect == "writes.reaction" and "type14" in site)

    res = execute(scn, PROP, ASPECTS, on_step=on_step, keep=keep)
    if st["reports"]:
        res.nontrivial_key = ("C05", scn["ops"])
    return res

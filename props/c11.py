"""C11 — node ids handed out are fresh, in range, and never handed out twice.

The registry is restored in arbitrary shapes (empty, dense, sparse, holding
0 / 254 / 255), then id requests are interleaved with presentations and
duplicated requests (a node retrying because the reply was lost) over slow,
suspending writes.  Oracle = constraints, not the allocator's formula.
"""

from __future__ import annotations

import random

from vsim import gen as G
from vsim.gwrun import execute

PROP = "C11"
LEVEL = "exploration"
LEVEL_TEXT = ("Constraint oracle on every id response (1..254, not in the registry before, registered when write() is "
              "entered, addressed like the request, registry delta = exactly that id) and on every TooManyNodesError "
              "(nothing written, registry unchanged, highest registered id >= 254), over seeded registry shapes x request/"
              "presentation histories x write latencies; all 2^8 subsets of a spread of 8 ids as restored registry in the "
              "thorough tier.")
LEVEL_NOTE = ("Trusted: harness observes registry membership at the instant Transport.write is entered; the registry "
              "is restored by constructing Node objects (the persistence path is exercised by C13/C16).")
TECHNIQUE = "deterministic simulation: constraint oracle over seeded registry shapes and request histories"
RULE = ("registry shape (empty/dense/sparse/with 0,254,255/random subset) + 1-12 id requests mixed with presentations; "
        "non-trivial iff the registry was non-empty or >=2 requests were made; distinct = distinct (shape, ops)")
REAL = ["aiomysensors.Gateway.listen", "id request handler", "Node", "send path"]
STUB = ["event loop (SimLoop)", "transport (SimTransport with latency tape)"]
ASSUMPTIONS = ["constraints from the property text are the oracle"]
REQUIRED_PROBES = ["context_reentered", "sparse_registry", "registry_has_0", "registry_has_254", "registry_has_255", "too_many_nodes",
                   "two_requests", "request_after_presentation_of_handed_out_id", "dense_to_limit"]
ASPECTS = ("idalloc", "registry")


def KEEP(aspect, site):
    # ids that were handed out and saved must still be taken after a restart: the registry of the new process is
    # the saved one, whatever happened at a failed start in between
    return aspect == "idalloc" or site.startswith("after-restart")
SPREAD = [0, 1, 2, 7, 100, 253, 254, 255]


def budget(tier):
    return 10000 if tier == "quick" else 256 * 5 + 150_000


def wall(tier):
    return 90 if tier == "quick" else 1500


def shape(rng):
    r = rng.random()
    if r < 0.1:
        return []
    if r < 0.25:
        return list(range(1, rng.randint(2, 40)))
    if r < 0.35:
        return list(range(0, rng.choice([250, 252, 253, 254, 255])))
    if r < 0.45:
        return list(range(1, rng.choice([251, 252, 253, 254])))
    if r < 0.7:
        return rng.sample(SPREAD, rng.randint(1, len(SPREAD)))
    return sorted(rng.sample(range(0, 256), rng.randint(1, 30)))


def _gen(seed: int, i: int, tier: str) -> dict:
    rng = random.Random(f"C11:{seed}:{i}")
    proto = rng.choice(G.PROTOS)
    if tier == "thorough" and i < 256 * 5:
        proto = G.PROTOS[i // 256]
        ids = [SPREAD[b] for b in range(8) if (i % 256 >> b) & 1]
    else:
        ids = shape(rng)
    snap = {str(n): {"type": 17, "version": proto} for n in ids}
    ops = [["restore", snap]] if snap else []
    handed = 0
    for _ in range(rng.randint(1, 12)):
        r = rng.random()
        if r < 0.6:
            req = rng.choice(["255;255;3;0;3;\n", "255;255;3;0;3;\n", f"{rng.choice([255, 0, 5])};{rng.choice([255, 0, 9])};3;{rng.choice([0, 1])};3;\n"])
            ops.append(["line", req])
            if rng.random() < 0.25:
                ops.append(["line", req])  # retry
            handed += 1
        elif r < 0.8:
            ops.append(["line", f"{rng.choice([1, 2, 3, 8, 101, 200, 254])};255;0;0;17;{proto}\n"])
        elif r < 0.9:
            # the node that was just given an id presents itself - now and then with a garbled library version
            ops.append(["presented_last", rng.choice([None, None, None, "", "2", "beta", "2.x"])])
        else:
            ops.append(["relisten"])
    lat = [rng.choice([0, 1, 3]) for _ in range(rng.randint(0, 10))]
    pin = proto if rng.random() < 0.7 else None
    cfg = {"pin": pin}
    if i % 6 == 5:
        # persistence configured: ids handed out in one session must stay taken in the next session on the same
        # gateway object, also when the final save of the first session failed (registry ahead of the file)
        cfg["persist"] = True
        k = rng.randint(1, max(1, len(ops)))
        tail = [["diskfault", rng.choice(["open", "write"]), [rng.choice(["ENOSPC", "EIO"])]]] if rng.random() < 0.7 else []
        again = [["reenter"]] if tail or rng.random() < 0.5 else [["restart", rng.random() < 0.6]]
        ops = ops[:k] + tail + again + [["line", "255;255;3;0;3;\n"] for _ in range(rng.randint(1, 3))] + ops[k:]
        lat = []
    tapes = {"w.lat": lat}
    if not cfg.get("persist") and rng.random() < 0.3:
        # the write of an id response fails - before anything left (1) or after the link took the bytes (2): the next
        # request (also a retry of the same node) may not be answered with the same id
        tapes["w.fail.idresp"] = [rng.choice([0, 1, 2, 2]) for _ in range(rng.randint(1, 4))]
    return {"cfg": cfg, "proto": proto, "ops": ops, "tapes": tapes, "ids": ids}


def gen(seed: int, i: int, tier: str) -> dict:
    if i % 4 == 3:
        from vsim.universe import gen_universe
        return gen_universe(random.Random(f"U:C11:{seed}:{i}"), tier)
    scn = _gen(seed, i, tier)
    return G.maybe_tcp(random.Random(f"C11link:{seed}:{i}"), scn)


def run(scn):
    if scn.get("kind") == "universe":
        from vsim.universe import run_universe
        return run_universe(scn, PROP, ASPECTS, keep=KEEP)
    ids = scn.get("ids", [])
    st = {"last_id": None, "reqs": 0, "presented_handed": False}
    ops = scn["ops"]

    def on_step(i, op, obs, disc, model, w, res):
        if obs is None or op[0] != "line":
            return
        parts = op[1].rstrip("\n").split(";")
        if len(parts) >= 6 and parts[2] == "3" and parts[4] == "3":
            st["reqs"] += 1
            if st["reqs"] >= 2:
                res.probes["two_requests"] += 1
            if st["presented_handed"]:
                res.probes["request_after_presentation_of_handed_out_id"] += 1
            if obs.kind == "err" and obs.cls == "TooManyNodesError":
                res.probes["too_many_nodes"] += 1
            for ln, ok in obs.writes:
                f = ln.rstrip("\n").split(";")
                if f[2] == "3" and f[4] == "4" and f[5].isdigit():
                    st["last_id"] = int(f[5])
                    if int(f[5]) >= 250:
                        res.probes["dense_to_limit"] += 1

    # 'presented_last': a node presents itself under the id it was probably given (highest+1); whether the
    # guess was right is observed at run time (probe), the oracle itself never depends on the allocator's formula
    expanded = []
    guess = (max(ids) if ids else 0)
    for op in ops:
        if op[0] == "presented_last":
            guess_id = min(254, guess + 1)
            ver = op[1] if len(op) > 1 and op[1] is not None else scn["proto"]
            expanded.append(["line", f"{guess_id};255;0;0;17;{ver}\n"])
        else:
            expanded.append(op)
            if op[0] == "line" and ";3;" in op[1] and op[1].split(";")[4] == "3":
                guess += 1
    scn2 = dict(scn, ops=expanded)

    def on_step2(i, op, obs, disc, model, w, res):
        on_step(i, op, obs, disc, model, w, res)
        if obs is not None and op[0] == "line":
            parts = op[1].rstrip("\n").split(";")
            if parts[2] == "0" and parts[1] == "255" and st["last_id"] is not None and int(parts[0]) == st["last_id"]:
                st["presented_handed"] = True

    res = execute(scn2, PROP, ASPECTS, on_step=on_step2, keep=KEEP)
    if ids:
        s = sorted(ids)
        if s != list(range(s[0], s[0] + len(s))):
            res.probes["sparse_registry"] += 1
        for k in (0, 254, 255):
            if k in ids:
                res.probes[f"registry_has_{k}"] += 1
    if ids or st["reqs"] >= 2:
        res.nontrivial_key = ("C11", tuple(ids), scn["ops"], scn["cfg"]["pin"])
    return res

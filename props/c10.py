"""C10 — unknown node or child triggers one presentation request per episode (2.x).

Up to three nodes (known/unknown, with/without children) emit every message
kind that can hit a missing node or child, mixed with node presentations;
the presentation-request write may fail (fault injection on exactly those
writes); five protocol versions (1.4/1.5 must never write a request).
"""

from __future__ import annotations

import random

from vsim import gen as G
from vsim.gwrun import execute

PROP = "C10"
LEVEL = "exploration"
LEVEL_TEXT = ("Per received line the presentation-request writes (internal type 19) are compared with a model holding "
              "one 'request outstanding' bit per node (set only if the write returned, cleared by that node's "
              "presentation, independent across nodes, never under 1.x); all histories of length <=4 over a 9-symbol "
              "alphabet x fail/no-fail of each request in the thorough tier, seeded longer histories with write faults "
              "beyond.")
LEVEL_NOTE = ("Trusted: reference model; write faults injected only on presentation-request writes; when the request "
              "write fails the step's outcome must be that transport error.")
TECHNIQUE = "deterministic simulation: model-based episode tracking with fault injection on the request write"
RULE = ("histories of missing-node/missing-child lines of every kind + presentations from <=3 nodes with a fail tape "
        "for request writes; non-trivial iff >=2 rejected lines from one node or >=2 nodes involved; distinct = "
        "distinct (protocol, ops, fail tape consumed)")
REAL = ["aiomysensors.Gateway.listen", "handle_missing_node_child wrapper", "presentation handlers 2.x", "send path"]
STUB = ["event loop (SimLoop)", "transport (SimTransport with fail tape)"]
ASSUMPTIONS = ["reference model is the oracle", "faults only on presentation-request writes"]
REQUIRED_PROBES = ["second_reject_same_node", "rearm_after_presentation", "request_write_failed",
                   "retry_after_failed_write", "two_nodes_independent", "missing_child_on_known_node",
                   "child_presentation_unknown_node", "no_request_under_1x", "internal_report_unknown_node",
                   "version_report_during_episode"]
ASPECTS = ("writes.pres", "outcome")

SHORT = ["0;255;3;0;2;{v}\n", "1;0;1;0;2;x\n", "1;255;0;0;17;{v}\n", "2;3;2;0;0;\n", "2;255;0;0;17;{v}\n", "1;255;3;0;0;50\n",
         "1;4;0;0;3;child\n", "2;255;3;0;11;name\n", "1;255;4;0;0;ab\n", "1;0;0;0;3;c\n"]


def budget(tier):
    return 12000 if tier == "quick" else 3 * 4 * G.short_history_count(len(SHORT), 4) + 100_000


def wall(tier):
    return 90 if tier == "quick" else 1500


def kinds(rng, proto, n, c):
    ks = [f"{n};{c};1;0;2;{G.payload(rng)}\n", f"{n};{c};2;0;2;\n", f"{n};{c};0;0;3;child\n",
          f"{n};255;4;0;{rng.choice([0, 2, 5])};ab\n", f"{n};255;3;0;0;{rng.choice([0, 55, 100])}\n",
          f"{n};255;3;0;11;sk\n", f"{n};255;3;0;12;1.0\n"]
    if proto in G.PROTOS_2X:
        ks += [f"{n};255;3;0;21;\n", f"{n};255;3;0;22;{rng.randint(0, 9)}\n"]
    if proto == "2.2":
        ks += [f"{n};255;3;0;32;\n"]
    return ks


def _gen(seed: int, i: int, tier: str) -> dict:
    rng = random.Random(f"C10:{seed}:{i}")
    nshort = G.short_history_count(len(SHORT), 4)
    short = None
    if tier == "thorough" and i < 12 * nshort:
        proto = G.PROTOS_2X[i // (4 * nshort)]
        fp = (i // nshort) % 4
        short = G.short_history(i % nshort, SHORT, 4)
    elif tier == "quick" and i < 4000:
        proto = rng.choice(G.PROTOS)
        fp = rng.randrange(4)
        short = G.short_history(rng.randrange(nshort), SHORT, 4)
    if short is not None:
        return {"cfg": {"pin": proto}, "ops": [["line", s.format(v=proto)] for s in short],
                "tapes": {"w.fail.pres": [(fp >> b) & 1 for b in range(2)]}}
    proto = rng.choice(G.PROTOS)
    nodes = rng.sample([0, 1, 2, 3, 9, 254, 255], rng.randint(1, 3))
    ops = []
    for n in nodes:
        if rng.random() < 0.4:
            ops.append(["line", f"{n};255;0;0;17;{proto}\n"])
            if rng.random() < 0.5:
                ops.append(["line", f"{n};0;0;0;3;c\n"])
    for _ in range(rng.randint(2, 25)):
        n = rng.choice(nodes)
        if rng.random() < 0.2:
            ver = proto if (n != 0 or rng.random() < 0.6) else rng.choice(["", "2", "unknown", "1" * 5000])
            ops.append(["line", f"{n};255;0;0;{rng.choice([17, 18])};{ver}\n"])
        else:
            ops.append(["line", rng.choice(kinds(rng, proto, n, rng.choice([0, 1, 7])))])
        if rng.random() < 0.05:
            ops.append(["relisten"])
        if rng.random() < 0.02:
            ops.append(["reenter"])
        if rng.random() < 0.08:
            # the gateway reports its (unchanged) version / presents itself again: episodes of other nodes go on
            ops.append(["line", rng.choice([f"0;255;3;0;2;{proto}\n", f"0;255;0;0;18;{proto}\n"])])
    fails = [rng.choice([0, 0, 0, 1, 2]) for _ in range(rng.randint(0, 6))] if rng.random() < 0.6 else []
    lat = [rng.choice([0, 1]) for _ in range(8)] if rng.random() < 0.3 else []
    return {"cfg": {"pin": proto}, "ops": ops, "tapes": {"w.fail.pres": fails, "w.lat": lat}}


def gen(seed: int, i: int, tier: str) -> dict:
    if i % 4 == 3:
        from vsim.universe import gen_universe
        return gen_universe(random.Random(f"U:C10:{seed}:{i}"), tier)
    scn = _gen(seed, i, tier)
    return G.maybe_tcp(random.Random(f"C10link:{seed}:{i}"), scn)


def run(scn):
    if scn.get("kind") == "universe":
        from vsim.universe import run_universe
        return run_universe(scn, PROP, ASPECTS, keep=None)
    st = {"rejects": {}, "presented_after_reject": set(), "failed_for": set(), "nodes": set(), "req_writes": 0}
    proto = scn["cfg"]["pin"]

    def on_step(i, op, obs, disc, model, w, res):
        if obs is None or op[0] != "line":
            return
        parts = op[1].rstrip("\n").split(";")
        if len(parts) < 6:
            return
        n, c, cmd, t = int(parts[0]), int(parts[1]), int(parts[2]), int(parts[4])
        pres_writes = [(ln, ok) for ln, ok in obs.writes if ln.split(";")[2] == "3" and ln.split(";")[4] == "19"]
        rejected = obs.kind == "err" and obs.cls in ("MissingNodeError", "MissingChildError", "TransportFailedError")
        if n == 0 and (cmd == 0 or (cmd == 3 and t == 2)) and model.pres_outstanding:
            res.probes["version_report_during_episode"] += 1
        if cmd == 0 and c == 255:
            if st["rejects"].get(n):
                st["presented_after_reject"].add(n)
            return
        if not rejected:
            return
        st["nodes"].add(n)
        k = st["rejects"].get(n, 0)
        st["rejects"][n] = k + 1
        if proto in ("1.4", "1.5"):
            res.probes["no_request_under_1x"] += 1
            return
        if k >= 1:
            res.probes["second_reject_same_node"] += 1
        if n in st["presented_after_reject"] and pres_writes:
            res.probes["rearm_after_presentation"] += 1
        if any(not ok for _, ok in pres_writes):
            res.probes["request_write_failed"] += 1
            st["failed_for"].add(n)
        elif pres_writes and n in st["failed_for"]:
            res.probes["retry_after_failed_write"] += 1
            st["failed_for"].discard(n)
        if len(st["nodes"]) >= 2 and pres_writes:
            res.probes["two_nodes_independent"] += 1
        if obs.cls == "MissingChildError":
            res.probes["missing_child_on_known_node"] += 1
        if cmd == 0 and obs.cls == "MissingNodeError":
            res.probes["child_presentation_unknown_node"] += 1
        if cmd == 3 and obs.cls == "MissingNodeError":
            res.probes["internal_report_unknown_node"] += 1
        st["req_writes"] += len(pres_writes)

    res = execute(scn, PROP, ASPECTS, on_step=on_step)
    if any(v >= 2 for v in st["rejects"].values()) or len(st["nodes"]) >= 2:
        res.nontrivial_key = "C10:" + res.digest[:24]
    return res

"""Regenerate seeded/README.md from the meta.json files (rewritten by selftest/reeval_seeded.sh)."""

from __future__ import annotations

import glob
import json
import os

VERIF = os.path.dirname(os.path.dirname(os.path.abspath(__file__)))

HEAD = """# Independent seeded changes

Each directory holds `patch.diff` (a change to /repo that keeps the 273 tests green), `demo.py` (exits 1 with the
change, 0 without), `notes.md` (the author's description) and `meta.json` (what was run and what the checks reported;
rewritten by `selftest/reeval_seeded.sh`, which applies the patch to a scratch copy of /repo, runs the pinned suite and
the demo, then the property's quick check with VERIF_REPO=<scratch>, and replays the minimised file on both trees).
Authors were fresh sub-agents that saw only the property text and a scratch git worktree (never /verif).
Round 1 = `a-*`; round 2 = `b-*`, round 3 = `c-*` were asked for a mechanism different from the earlier rounds;
round 4 = `d-*` were told the harness replays rich random histories with re-entry, faults and races and were asked for
what such a harness would still miss; round 5 = `e-*` were asked for a realistic FEATURE pull request (30-150 changed
lines: a new option, a cache, a helper, an optimisation) that breaks the property as an unintended side effect in a
corner, reachable with all defaults; round 6 = `f-*` got exactly the round-1 prompt again (property text only, no hints),
as a fresh independent sample of "what a maintainer might break" against the checks as they had become; round 7 = `g-*`
were feature pull requests again (other features than in round 5); round 8 = `h-*` got the round-2 prompt again ("a
different mechanism than the earlier authors", now with seven earlier mechanisms listed). `r-*` are the opposite kind: refactorings that PRESERVE all properties (soundness
round, see the end of this file).

History of first contact (checks as they stood when the change arrived):

| round | caught by the target check | caught only by a sibling check | missed |
|---|---|---|---|
| 1 (a) | 13 | 0 | 6 (a-c03 a-c06 a-c12 a-c15 a-c17 a-c19) |
| 2 (b) | 9 | 3 (b-c03 by C09, b-c12 by C08, b-c13 by C11) | 7 (b-c07 b-c08 b-c10 b-c14 b-c15 b-c17 b-c18) |
| 3 (c) | 7 | 1 (c-c03 by C17) | 11 (c-c02 c-c04 c-c06 c-c07 c-c09 c-c10 c-c11 c-c12 c-c14 c-c16 c-c17) |
| 4 (d) | 6 (d-c01 d-c02 d-c04 d-c07 d-c10 d-c14) | 1 (d-c09 by C06/C07) | 12 (d-c03 d-c05 d-c06 d-c08 d-c11 d-c12 d-c13 d-c15 d-c16 d-c17 d-c18 d-c19) |
| 5 (e) | 10 (e-c01 e-c04 e-c05 e-c06 e-c08 e-c09 e-c10 e-c11 e-c14 e-c17) | 4 (e-c02 by C06, e-c07 by C08/C09, e-c13 by C16, e-c15 by C11) | 5 (e-c03 e-c12 e-c16 e-c18 e-c19; siblings tried: C04 C11 / C06 C08 C09 / - / - / -) |
| 6 (f) | 17 | 0 | 2 (f-c11: id released when the response write fails after the bytes left; f-c15: serialisation moved behind the truncating open) |
| 7 (g) | 11 (g-c01 g-c02 g-c03 g-c04 g-c05 g-c06 g-c08 g-c09 g-c10 g-c14 g-c18) | 4 (g-c11 by C03/C04, g-c13 by C16, g-c15 by C16, g-c19 by C07/C12) | 4 (g-c07 g-c12 g-c16 g-c17) |
| 8 (h) | 14 | 0 | 5 (h-c02 h-c12 h-c13 h-c14 h-c15; h-c15 is the same defect as h-c16, which C16 caught) |

Every miss led to an extension of the target property's check (DESIGN.md 9.5). With the current checks all {n} are
caught by the check of the property they were written against (one exception: g-c13 - a save that joins an
older in-flight save - shows only when the context is left while the saver is writing, which is C16's world; C16
catches it), and every minimised replay reproduces on the changed
tree and not on the unchanged tree.

| change | property | caught by | first signature (target check) | what it is |
|---|---|---|---|---|
"""


def main():
    rows = []
    metas = sorted(glob.glob(os.path.join(VERIF, "seeded", "[a-q]-c*", "meta.json")))
    for path in metas:
        m = json.load(open(path))
        tgt = m["breaks_property"]
        caught = [p for p, c in m["checks"].items() if c["exit"] == 1 and c["violations"]]
        sig = (m["checks"][tgt]["signatures"] or ["-"])[0]
        sig = sig.split(" detail=")[0].strip("[]").replace("'", "")[:80]
        what = " ".join(m.get("needs_to_manifest", "").split())[:140].replace("|", "/")
        rows.append(f"| {m['name']} | {tgt} | {','.join(caught) or 'NOT CAUGHT'} | {sig} | {what} |")
    out = HEAD.replace("{n}", str(len(metas))) + "\n".join(rows) + "\n"
    tail = os.path.join(VERIF, "seeded", "README.refactorings.md")
    if os.path.exists(tail):
        out += "\n" + open(tail).read()
    with open(os.path.join(VERIF, "seeded", "README.md"), "w") as f:
        f.write(out)
    print(f"{len(metas)} changes listed")


if __name__ == "__main__":
    main()

"""setup_cmd: nothing to build; verify the interpreter and the seams exist (offline)."""
import importlib
import os
import sys

VERIF = os.path.dirname(os.path.dirname(os.path.abspath(__file__)))
sys.path.insert(0, VERIF)
os.makedirs(os.path.join(VERIF, "evidence"), exist_ok=True)
os.makedirs(os.path.join(VERIF, "replays"), exist_ok=True)
for name in ("marshmallow", "awesomeversion", "aiofiles", "aiomqtt", "serial_asyncio"):
    importlib.import_module(name)
from vsim.core import use_repo  # noqa: E402

use_repo()
import aiomysensors  # noqa: E402
import aiofiles.threadpool  # noqa: E402
import aiomysensors.transport.mqtt as m  # noqa: E402
import aiomysensors.transport.serial as s  # noqa: E402
import aiomysensors.model.protocol.protocol_14 as p14  # noqa: E402

assert hasattr(aiofiles.threadpool, "sync_open")
assert hasattr(m, "AsyncioClient") and hasattr(s, "open_serial_connection") and hasattr(p14, "time")
print("setup ok:", sys.version.split()[0], "aiomysensors from", aiomysensors.__file__)

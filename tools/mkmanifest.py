"""Generate /verif/MANIFEST.json from the property modules that exist.

Run: /venv/bin/python tools/mkmanifest.py   (cwd=/verif)
"""

import importlib
import json
import os
import sys

VERIF = os.path.dirname(os.path.dirname(os.path.abspath(__file__)))
sys.path.insert(0, VERIF)

ALL = [f"C{i:02d}" for i in range(1, 20)]
NOT_BUILT_REASON = "check not built yet in this session (planned in DESIGN.md section 3); not claimed until it exists"

BASELINE = ("cd /repo && /venv/bin/python -m pytest -ra -q -p no:cacheprovider --timeout=900 "
            "--continue-on-collection-errors")


def main():
    checks, na = [], []
    for pid in ALL:
        path = os.path.join(VERIF, "props", f"{pid.lower()}.py")
        if not os.path.exists(path):
            na.append({"property_id": pid, "reason": NOT_BUILT_REASON})
            continue
        mod = importlib.import_module(f"props.{pid.lower()}")
        if getattr(mod, "NOT_APPLICABLE", None):
            na.append({"property_id": pid, "reason": mod.NOT_APPLICABLE})
            continue
        checks.append({
            "property_id": pid,
            "quick_cmd": f"timeout 900 ./check {pid} --tier quick",
            "thorough_cmd": f"timeout 7200 ./check {pid} --tier thorough",
            "evidence_file": f"/verif/evidence/{pid}.json",
            "replay_cmd_template": f"./check {pid} --replay {{path}}",
            "engine": "vsim",
            "level_claimed": {
                "category": mod.LEVEL,
                "text": mod.LEVEL_TEXT,
                "design_ref": f"DESIGN.md section 3 ({pid})",
            },
            "level_note": mod.LEVEL_NOTE,
            "technique": getattr(mod, "TECHNIQUE", "deterministic simulation with fault injection (seeded schedule/fault search)"),
        })
    manifest = {
        "version": 1,
        "setup_cmd": "cd /verif && chmod +x check && /venv/bin/python tools/selfcheck_env.py",
        "hooks": {
            "guard": "AIOMYSENSORS_VERIF",
            "enable": "no source hooks are needed: every seam is an injected Transport, a module attribute the repo's own "
                      "tests patch (aiofiles.threadpool.sync_open, transport.mqtt.AsyncioClient, "
                      "transport.serial.open_serial_connection, protocol_14.time) or the event loop; checks import "
                      "aiomysensors from ${VERIF_REPO:-/repo}/src",
            "baseline_off_cmd": BASELINE,
            "source_commits": [],
            "add_only": True,
        },
        "engines": [{
            "name": "vsim",
            "path": "/verif/vsim",
            "serves_properties": [c["property_id"] for c in checks],
            "kind_free_text": "deterministic simulator: virtual-time asyncio event loop (SimLoop), simulated transport / "
                              "TCP+serial byte link / file system / MQTT broker, explicit scenario tapes (no PRNG in the "
                              "executor), seeded scenario search on 16 processes, ddmin shrinking, replay files",
        }],
        "checks": checks,
        "not_applicable": na,
        "notes": "Exit codes of ./check: 0 held (possibly KNOWN-FINDING lines), 1 VIOLATION, 2 harness error. "
                 "VERIF_SEED / VERIF_TIER / VERIF_REPO / VERIF_WORKERS are honoured. known_findings.json lists known and "
                 "fixed findings; see DESIGN.md.",
    }
    with open(os.path.join(VERIF, "MANIFEST.json"), "w") as f:
        json.dump(manifest, f, indent=1)
        f.write("\n")
    print(f"claimed {len(checks)}: {[c['property_id'] for c in checks]}; not claimed {len(na)}")


if __name__ == "__main__":
    main()
